"""./check <property> [--tier quick|thorough] [--replay <file>]

exit 0: the property held on everything explored (known findings are printed as KNOWN-FINDING lines);
exit 1: a violation not listed in known_findings.json (VIOLATION property=<id> replay=<path>);
exit 2: the machinery itself failed (nothing is claimed).
"""
from __future__ import annotations

import argparse
import importlib
import json
import os
import sys
import traceback

from . import report
from .common import Timer, seed
from .tlc import MachineryError


def main(argv=None) -> int:
    ap = argparse.ArgumentParser()
    ap.add_argument("prop")
    ap.add_argument("--tier", default=os.environ.get("VERIF_TIER", "quick"))
    ap.add_argument("--replay")
    a = ap.parse_args(argv)
    prop = a.prop.upper()
    tier = a.tier if a.tier in ("quick", "thorough") else "quick"
    os.environ["VERIF_TIER"] = tier
    timer = Timer()
    try:
        mod = importlib.import_module(f"vf.checks.{prop.lower()}")
    except ImportError as e:
        print(f"no check for {prop}: {e}")
        return 2
    try:
        if a.replay:
            data = json.load(open(a.replay))
            out = mod.replay(data)
        else:
            out = mod.run(tier, seed())
    except MachineryError as e:
        print(f"MACHINERY-FAILURE property={prop}: {e}")
        return 2
    except Exception:  # noqa: BLE001
        traceback.print_exc()
        print(f"MACHINERY-FAILURE property={prop}: unexpected exception")
        return 2

    findings = report.load_findings()
    unlisted = 0
    announced = set()
    seen_replays = set()
    for v in out["violations"]:
        f = report.match_finding(findings, prop, v.get("key", {}))
        if f is not None:
            if f["id"] not in announced:
                announced.add(f["id"])
                print(f"KNOWN-FINDING: property={prop} {f['id']}: {f['what']}")
            continue
        path = report.write_replay(prop, v)
        if path in seen_replays:
            continue
        seen_replays.add(path)
        unlisted += 1
        if unlisted <= 25:
            print(f"VIOLATION property={prop} replay={path}")
            print(f"  {v.get('what')}")
    if unlisted > 25:
        print(f"  ... and {unlisted - 25} more violations of {prop}")
    if not a.replay and prop != "SELFTEST":
        cov = out["coverage"]
        cov.setdefault("known_findings_matched", sorted(announced))
        p = report.write_evidence(prop, tier, seed(), cov, timer.s(), unlisted, out.get("assumptions", []),
                                  out.get("level", "model_checking"))
        err = report.validate_evidence(p)
        if err:
            print(f"MACHINERY-FAILURE property={prop}: evidence file invalid: {err}")
            return 2
    print(f"{prop} {tier}: {'OK' if unlisted == 0 else 'VIOLATED'} "
          f"({len(out['violations'])} violating cases, {len(announced)} known findings, {timer.s()} s)")
    return 1 if unlisted else 0


if __name__ == "__main__":
    sys.exit(main())
