"""Shared plumbing: paths, seed/tier, importing tensora from the tree under test."""
from __future__ import annotations

import hashlib
import json
import os
import sys
import time
from fractions import Fraction
from pathlib import Path

VERIF = Path(__file__).resolve().parents[2]
SPEC = VERIF / "spec"
WORK = VERIF / ".work"
REPO = Path(os.environ.get("VERIF_REPO", "/repo"))
# evidence and replay files describe runs against /repo itself; a run against another tree (seed testing with
# VERIF_REPO) must not overwrite them
_OFFICIAL = REPO.resolve() == Path("/repo")
EVIDENCE = VERIF / "evidence" if _OFFICIAL else WORK / "evidence-other-tree"
REPLAYS = VERIF / "replays" if _OFFICIAL else WORK / "replays-other-tree"
SRC = REPO / "src"

# the guard recorded in MANIFEST.hooks: all instrumentation is applied from outside, inside the
# harness's own processes, and only when this is set (the checks set it themselves).
GUARD = "TENSORA_VERIF"


def seed() -> int:
    try:
        return int(os.environ.get("VERIF_SEED", "0"))
    except ValueError:
        return 0


def tier(default: str = "quick") -> str:
    t = os.environ.get("VERIF_TIER", default)
    return t if t in ("quick", "thorough") else default


def use_repo() -> None:
    """Make `import tensora` resolve to the tree under test ($VERIF_REPO/src, default /repo/src)."""
    p = str(SRC)
    if p in sys.path:
        sys.path.remove(p)
    sys.path.insert(0, p)
    os.environ.setdefault(GUARD, "1")
    _maybe_cover()


_COV = None


def _maybe_cover() -> None:
    """Development aid (tools/coverage.sh), never used by a registered command: with VF_COVERAGE_DIR set, every
    harness process that imports the tree under test records line/branch coverage of tensora there, so that the
    parts of the implementation no check ever executes can be listed."""
    global _COV
    d = os.environ.get("VF_COVERAGE_DIR")
    if not d or _COV is not None:
        return
    try:
        import atexit

        import coverage
    except ImportError:
        return
    _COV = coverage.Coverage(data_file=os.path.join(d, "cov"), data_suffix=True, branch=True,
                             include=[str(SRC / "tensora" / "*")])
    _COV.start()

    def _save():
        _COV.stop()
        _COV.save()

    atexit.register(_save)


def source_hash() -> str:
    """Hash of every file under the tree's src/ - cache key, so any edit rebuilds everything."""
    h = hashlib.sha256()
    for f in sorted(SRC.rglob("*.py")):
        h.update(str(f.relative_to(SRC)).encode())
        h.update(f.read_bytes())
    return h.hexdigest()[:20]


def machinery_hash() -> str:
    """Hash of the verification machinery itself (harness + specifications): part of every cache key."""
    h = hashlib.sha256()
    for f in sorted(list((VERIF / "harness" / "vf").rglob("*.py")) + list(SPEC.glob("*.tla"))):
        if f.name.startswith("MC_"):
            continue
        h.update(f.name.encode())
        h.update(f.read_bytes())
    return h.hexdigest()[:12]


def dyadic(x) -> dict | None:
    """float/int -> {"n","e"} with x = n / 2**e, or None when outside the model's value box."""
    try:
        fr = Fraction(x)
    except (ValueError, OverflowError):   # NaN / infinity
        return None
    d = fr.denominator
    e = d.bit_length() - 1
    if d != 1 << e or abs(fr.numerator) > 2**31 - 1 or e > 14:
        return None
    return {"n": fr.numerator, "e": e}


def garbage(x) -> bool:
    """A native double that no exact computation on the harness's small dyadic inputs can produce: not finite, or
    with more than 20 fractional bits (magnitudes beyond the box are merely 'outside', not garbage)."""
    import math

    if not isinstance(x, (int, float)) or not math.isfinite(x):
        return True
    return Fraction(x).denominator > (1 << 20)


def undyadic(d: dict) -> float:
    return d["n"] / (1 << d["e"])


class Timer:
    def __init__(self):
        self.t0 = time.time()

    def s(self) -> float:
        return round(time.time() - self.t0, 3)


def dump(obj, path: Path) -> None:
    path.parent.mkdir(parents=True, exist_ok=True)
    with open(path, "w") as f:
        json.dump(obj, f, separators=(",", ":"))


def hook_kernel_entry(wrap) -> None:
    """Observe every entry into a compiled kernel of the tree under test, however and whenever the tree stores the
    function pointer: TensorMethod._evaluate becomes a class-level property whose getter hands out
    wrap(method, pointer) (cached per pointer) and whose setter keeps what the tree assigns (in __init__, lazily on
    the first call, ...).  `wrap` may be replaced by calling this again."""
    import tensora.compile._tensor_method as tmod

    cls = tmod.TensorMethod
    cls._vf_wrap = staticmethod(wrap)
    if getattr(cls, "_vf_hooked", False):
        return

    def _get(self):
        inner = self.__dict__.get("_vf_inner")
        if inner is None:
            return None
        cache = self.__dict__.get("_vf_cache")
        if cache is None or cache[0] is not inner or cache[1] is not cls._vf_wrap:
            cache = (inner, cls._vf_wrap, cls._vf_wrap(self, inner))
            self.__dict__["_vf_cache"] = cache
        return cache[2]

    def _set(self, value):
        self.__dict__["_vf_inner"] = value

    cls._evaluate = property(_get, _set)
    cls._vf_hooked = True
