"""C04: assemble ; compute == evaluate, compute never touches structure, re-valued inputs give the new values.

One behaviour of spec/KernelRun.tla (judge "history"):
  load x1 ; run evaluate ; snap ; reload ; run assemble ; snap ; freeze ; run compute ; snap ;
  revalue(triple) ; run compute ; snap ; revalue(zero) ; run compute ; snap
`freeze` makes the assembled pos/crd read-only and vals non-reallocatable, so a compute kernel that touches
structure faults by name.  The three IR functions come from ONE generate_module_tensora call (the CLI path).
The same history is then executed on the real LLVM-compiled module and the recorded raw arrays are validated
by the same judge (observe).
"""
from __future__ import annotations

import random

from .. import exprs, kernels, kset, pipeline
from ..common import Timer, dump, dyadic
from ..native import Pool
from ..tlc import MachineryError, run_tlc, workdir
from . import _pipe

PARAMS = {"quick": dict(per=4, tries=60, inputs=4, caps=[1], gen_kernels=5, gen_cells=5),
          "thorough": dict(per=12, tries=300, inputs=10, caps=[1, 2, None], gen_kernels=60, gen_cells=7)}
MAPS = ["triple", "zero"]


def script(k):
    ev, asm, cmp_ = k.progs["evaluate"], k.progs["assemble"], k.progs["compute"]
    s = [{"op": "load", "val": 1, "dims": 1}, {"op": "run", "prog": ev, "track": False}, {"op": "snap", "vals": True}]
    for m in MAPS:   # what evaluate yields for the re-valued inputs (fresh memory each time)
        s += [{"op": "reload"}, {"op": "revalue", "val": 0, "map": m}, {"op": "run", "prog": ev, "track": False},
              {"op": "snap", "vals": True}]
    s += [{"op": "load", "val": 1, "dims": 1}, {"op": "run", "prog": asm, "track": False}, {"op": "snap", "vals": False},
          {"op": "freeze"}, {"op": "run", "prog": cmp_, "track": False}, {"op": "snap", "vals": True}]
    for m in MAPS:
        s += [{"op": "revalue", "val": 0, "map": m}, {"op": "run", "prog": cmp_, "track": False},
              {"op": "snap", "vals": True}]
    return s


def gen_script(k):
    """The same history with the stored subset of every input chosen by TLC at the first load (all patterns); later
    phases re-install that content in fresh memory."""
    s = script(k)
    first = True
    out = []
    for op in s:
        if op["op"] == "load":
            # the second half starts again from the ORIGINAL content (recorded by the first snapshot)
            out.append({"op": "load", "val": 0, "dims": 1} if first else {"op": "reload", "from": 1})
            first = False
        else:
            out.append(op)
    return out


def obs_script():
    s = [{"op": "load", "val": 1, "dims": 1}, {"op": "observe", "k": 1}]
    for i, m in enumerate(MAPS):
        s += [{"op": "observe", "k": 2 + i}]
    n = len(MAPS)
    s += [{"op": "observe", "k": n + 2}, {"op": "observe", "k": n + 3}]
    for i, m in enumerate(MAPS):
        s += [{"op": "observe", "k": n + 4 + i}]
    return s


def cache_path(tier, seed):
    from ..common import WORK, machinery_hash, source_hash

    return WORK / "cache" / (source_hash() + "-" + machinery_hash()) / tier / f"c04-{seed}.json"


def run(tier, seed):
    """Cached per (source, machinery, tier, seed) like the pipeline: C05 reads the memory faults of the assemble and
    compute kernels from the same exploration."""
    import json

    cp = cache_path(tier, seed)
    if cp.exists():
        return json.loads(cp.read_text())
    out = _run(tier, seed)
    dump(out, cp)
    return out


def _run(tier, seed):
    P = PARAMS[tier]
    timer = Timer()
    rng = random.Random(7 * seed + 4)
    programs: list = []
    klist = []
    for cap in P["caps"]:
        for k, group in kset.select(rng, ["assemble", "compute", "evaluate"], P["per"], P["tries"], cap,
                                    programs=programs):
            klist.append((k, group, cap))
    cases, meta = [], {}
    def half_inputs(asg):
        # two more inputs with about half of the cells stored (dimensions 2..3): rows in which some coordinates are
        # contributed by one operand only - the patterns full / empty / singleton inputs cannot show
        out = []
        for sizes in ((2, 3), (3, 3)):
            dims = kernels.choose_dims(asg, rng, sizes if max(len(lf["idx"]) for lf in exprs.leaves(asg["rhs"]) or [{"idx": []}]) < 4 else (2,))
            out.append((dims, kernels.sample_content(asg, dims, rng, "half")))
        return out

    for ki, (k, group, cap) in enumerate(klist):
        for dims, content in pipeline.input_sets(k.asg, rng, P["inputs"]) + half_inputs(k.asg):
            cid = len(cases) + 1
            cases.append(dict(kernels.base_case(k, cid, [dims], [content], script(k), "history"), nmaps=len(MAPS)))
            meta[cid] = {"kernel": ki, "text": k.text, "formats": k.formats, "cap": cap, "group": group, "dims": dims,
                         "content": content}
    d = workdir("c04")
    dump(programs, d / "progs.json")
    # chunked runs (each with only the programs it needs): the thorough tier's constants are too large for one TLC run
    from ..irtrees import machine_chunks

    r = machine_chunks(programs, cases, d, "c04", per_chunk=2000)
    if len(r.lines) != len(cases):
        raise MachineryError(f"C04: {len(r.lines)} verdicts for {len(cases)} cases")
    lines = {l["case"]: l for l in r.lines}
    vio = []
    inconclusive = 0
    for cid, l in lines.items():
        if "value-range" in l["v"]["c04"] or "unsupported-node" in l["v"]["c04"]:
            inconclusive += 1  # outside the model's value box (big literals): says nothing about the kernel
        elif l["v"]["c04"] != "ok":
            vio.append(_pipe.violation({**meta[cid], "v": l["v"]}, l["v"]["c04"], "machine", "C04"))

    # every input pattern (TLC chooses the stored subset of every operand) for a few small kernels
    GEN_VALUES = [1, 2, 3, -1, 0.5, 4, 2, 1]
    order = list(range(len(klist)))
    rng.shuffle(order)
    gcases, gmeta, gexpected = [], {}, 0
    for ki in order:
        if len(gcases) >= P["gen_kernels"]:
            break
        k, group, cap = klist[ki]
        if group in ("broadcast-target", "big-literal", "inexact-literal") or exprs.shape_tags(k.asg):
            continue
        fu = exprs.first_use(k.asg)
        cls = exprs.index_classes(k.asg)
        dims = {i: 2 for i in cls}

        def ncells(dm):
            return sum(len(kernels.cells_of([dm[i] for i in fu[nm]])) for nm in fu)

        for i in sorted(dims, reverse=True):
            if ncells(dims) <= P["gen_cells"]:
                break
            for j in dims:
                if cls[j] == cls[i]:
                    dims[j] = 1
        if not 0 < ncells(dims) <= P["gen_cells"]:
            continue
        gen = {}
        for nm in fu:
            cells = kernels.cells_of([dims[i] for i in fu[nm]])
            gen[nm] = {"cells": [list(c) for c in cells], "vals": [dyadic(GEN_VALUES[j % len(GEN_VALUES)]) for j in range(len(cells))]}
        gid = len(gcases) + 1
        c = dict(kernels.base_case(k, gid, [dims], [{}], gen_script(k), "history"), nmaps=len(MAPS))
        c["gen"] = dict(gen, _={"cells": [], "vals": []})
        gcases.append(c)
        gmeta[gid] = {"kernel": ki, "text": k.text, "formats": k.formats, "cap": cap, "group": group, "dims": dims, "content": None}
        gexpected += 2 ** ncells(dims)
    g_states = g_trans = 0
    if gcases:
        rg = machine_chunks(programs, gcases, d, "c04g", per_chunk=20)   # only the programs these kernels need
        if len(rg.lines) != gexpected:
            raise MachineryError(f"C04 (TLC-chosen inputs): {len(rg.lines)} verdicts, {gexpected} expected")
        g_states, g_trans = rg.distinct, rg.generated
        for l in rg.lines:
            if "value-range" in l["v"]["c04"] or "unsupported-node" in l["v"]["c04"]:
                inconclusive += 1
            elif l["v"]["c04"] != "ok":
                m = dict(gmeta[l["case"]], content=l.get("content"))
                vio.append(_pipe.violation({**m, "v": l["v"]}, l["v"]["c04"], "machine-all-input-patterns", "C04"))

    n_unsup = sum(1 for l in lines.values() if "unsupported-node" in l["v"]["c04"])
    if n_unsup:
        print(f"NOTE property=C04 spec/IRMachine.tla cannot execute {n_unsup} histories (unsupported IR node): they are judged by "
              "their native runs only")
    # native history, validated as a trace
    # (a kernel the machine could not judge - unsupported node, values outside the box - still runs natively: its
    # recorded history is validated below; only kernels with a real machine fault are kept away from native execution)
    def _inconclusive(v):
        return "value-range" in v or "unsupported-node" in v

    bad_kernels = {meta[c]["kernel"] for c, l in lines.items() if l["v"]["c04"] != "ok" and not _inconclusive(l["v"]["c04"])}
    tasks = []
    for ki, (k, group, cap) in enumerate(klist):
        if ki in bad_kernels or group == "broadcast-target":
            continue
        fu = exprs.first_use(k.asg)
        inputs = []
        for cid, m in meta.items():
            if m["kernel"] != ki:
                continue
            tensors = {}
            for nm in fu:
                dims_t = [m["dims"][i] for i in fu[nm]]
                tensors[nm] = {"fmt": kernels.fmt_record(k.formats[nm]), "dims": dims_t,
                               **pipeline._py_pack(m["content"][nm], kernels.fmt_record(k.formats[nm]), dims_t)}
            inputs.append({"cid": cid, "tensors": tensors, "maps": MAPS,
                           "out_dims": [m["dims"][i] for i in k.asg["tidx"]]})
        tasks.append({"id": str(ki), "op": "history_batch", "text": k.text, "formats": k.formats, "cap": cap,
                      "inputs": inputs})
    nat = Pool().run(tasks)
    obs, obs_meta = [], {}
    for tid, res in nat.items():
        k, group, cap = klist[int(tid)]
        if res.get("crashed") or "outs" not in res:
            rec = {"text": k.text, "formats": k.formats, "cap": cap, "group": group, "dims": None}
            vio.append(_pipe.violation(rec, "native-history-" + ("crashed" if res.get("crashed") else str(res)[:80]),
                                       "native", "C04"))
            continue
        for o in res["outs"]:
            m = meta[o["cid"]]
            if any(rc != 0 for rc in o["rc"]):
                vio.append(_pipe.violation(m, "native-nonzero-return", "native", "C04"))
                continue
            seq = o["evaluate"] + [{"levels": o["assemble"]["levels"], "vals": []}] + o["compute"]
            enc = []
            ok = True
            for s in seq:
                vals = [dyadic(v) for v in s["vals"]]
                if any(v is None or abs(v["n"]) > 32767 for v in vals):
                    ok = False
                enc.append({"levels": s["levels"], "vals": vals})
            if not ok:
                continue
            cid = len(obs) + 1
            c = kernels.base_case(k, cid, [m["dims"]], [m["content"]], obs_script(), "history", emit=False)
            c["obs"] = enc
            c["nmaps"] = len(MAPS)
            obs.append(c)
            obs_meta[cid] = m
    states, trans, ntr = r.distinct + g_states, r.generated + g_trans, 0
    if obs:
        r2 = machine_chunks([], obs, d, "c04obs", per_chunk=4000)
        if len(r2.lines) != len(obs):
            raise MachineryError(f"C04 traces: {len(r2.lines)} verdicts for {len(obs)}")
        states += r2.distinct
        trans += r2.generated
        ntr = len(r2.lines)
        for l in r2.lines:
            if l["v"]["c04"] != "ok":
                vio.append(_pipe.violation({**obs_meta[l["case"]], "v": l["v"]}, l["v"]["c04"], "native-trace", "C04"))
    import shutil

    shutil.rmtree(d, ignore_errors=True)
    nontrivial = {(m["text"], str(m["formats"]), m["cap"], str(m["dims"]), str(m["content"])) for c, m in meta.items()
                  if lines[c].get("nzsnaps", 0) > 0}
    samples = [{"assignment": meta[c]["text"], "formats": meta[c]["formats"], "cap": meta[c]["cap"],
                "dims": meta[c]["dims"], "inputs": meta[c]["content"], "history": [s["op"] for s in cases[c - 1]["script"]],
                "verdict": lines[c]["v"]} for c in list(lines)[:3]]
    cov = {"states": states, "transitions": trans, "traces_validated_against_impl": ntr, "evaluations": len(cases) + ntr,
           "distinct_nontrivial": len(nontrivial),
           "rule": "catalogue x seeded formats (kernels where assemble, compute, evaluate all generate) x seeded inputs; "
                   "history = evaluate; assemble; freeze; compute; re-value x3; compute; re-value 0; compute. "
                   "Non-trivial = evaluate's output stores a non-zero value.",
           "samples": samples, "kernels": len(klist), "inconclusive": inconclusive, "exhaustive": False,
           "kernels_with_all_input_patterns": len(gcases), "histories_from_all_input_patterns": gexpected}
    return {"violations": vio, "coverage": cov, "assumptions": _pipe.ASSUMPTIONS}


def replay(data):
    print("C04 replay: re-running the full check restricted to the recorded request")
    c = data["case"]
    global PARAMS
    from .. import catalogue

    catalogue.CATALOGUE[:] = [("replay", c["text"])]
    catalogue.BROADCAST_TARGET[:] = []
    return _run("quick", 0)
