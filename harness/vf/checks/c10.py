"""C10: inconsistent arguments are refused before any kernel runs.

spec/CallProtocol.tla enumerates problems x entry point x exactly one fault, model-checks the validation protocol
against the declarative Consistent predicate, and prints every call with the verdict the property demands; each call
is replayed into tensor_method(...)(...) / evaluate(...) with the compiled function pointer wrapped by a recorder.
"""
from __future__ import annotations

from .. import exprs, kernels
from ..common import dump
from ..native import Pool
from ..tlc import MachineryError, run_tlc, workdir

PROBLEMS = [
    ("y(i) = A(i,j) * x(j)", {"y": "d0", "A": "d0s1", "x": "d0"}),
    ("a(i,k) = b(i,j) * c(j,k)", {"a": "d0d1", "b": "d0s1", "c": "d0s1"}),
    ("a() = x(i) * V(i,j) * x(j)", {"a": "", "x": "d0", "V": "d0s1"}),
    ("a(i) = b(i) + c(i) + d(i)", {"a": "d0", "b": "s0", "c": "d0", "d": "s0"}),
    ("a(i,j) = b(i,j) + b(j,i)", {"a": "d0d1", "b": "d0d1"}),
    ("a(i) = b(i,j,k) * c(j) * d(k)", {"a": "d0", "b": "d0s1s2", "c": "d0", "d": "d0"}),
    ("a() = b() * c()", {"a": "", "b": "", "c": ""}),
    ("a(i,j) = b(i) * c(j)", {"a": "d0d1", "b": "d0", "c": "s0"}),
    ("a(i) = b(i,j)", {"a": "d0", "b": "d0s1"}),
    ("a(i) = 2 * b(i) + 1", {"a": "d0", "b": "s0"}),
    ("a(i,j,k) = b(k,i,j)", {"a": "d0d1d2", "b": "d0d1d2"}),
    ("a(i) = b(i,j) * c(j) + d(i,k) * e(k)", {"a": "d0", "b": "d0s1", "c": "d0", "d": "d0s1", "e": "d0"}),
]
DOCUMENTED = {"TypeError", "ValueError", "UndefinedReferenceError", "UnusedFormatError", "IncorrectDimensionsError"}
REFUSALS_OK_WHEN_CONSISTENT = {"NoKernelFoundError"}


def problem_record(pid, text, formats):
    asg = exprs.parse(text)
    problem = kernels.make_problem(text, formats)  # the real parser decides the signature order
    names = [n for n in problem.formats.keys() if n != asg["target"]]
    cls = exprs.index_classes(asg)
    sizes, pool = {}, [2, 3, 4, 5]
    for i, rep in cls.items():
        sizes.setdefault(rep, pool[len(sizes) % len(pool)])
    uses = {}
    for lf in exprs.leaves(asg["rhs"]):
        uses.setdefault(lf["name"], []).append(list(lf["idx"]))
    params = [{"name": n, **kernels.fmt_record(formats[n]), "uses": uses[n]} for n in names]
    rhs_idx = list(dict.fromkeys(i for lf in exprs.leaves(asg["rhs"]) for i in lf["idx"]))
    return {"id": pid, "text": text, "target": asg["target"], "params": params, "sizes": dict({i: sizes[r] for i, r in cls.items()}, _=0),
            "indexes": rhs_idx}


def run(tier, seed):
    probs = [problem_record(i + 1, t, f) for i, (t, f) in enumerate(PROBLEMS)]
    d = workdir("c10")
    dump(probs, d / "problems.json")
    cfg = d / "CallProtocol.cfg"
    entries = '{"method", "evaluate", "evaluate_cffi"}' if tier == "quick" else '{"method", "evaluate", "evaluate_cffi", "method_cffi"}'
    cfg.write_text(f"SPECIFICATION Spec\nCONSTANTS\n  Entries = {entries}\nINVARIANT Emit\nINVARIANT EnteredOnlyConsistent\nINVARIANT RefusedOnlyInconsistent\nINVARIANT PhaseOneEnters\n"
                   "CHECK_DEADLOCK FALSE\n")
    r = run_tlc("CallProtocol", str(cfg), env={"VF_PROBLEMS": d / "problems.json"})
    import shutil

    shutil.rmtree(d, ignore_errors=True)
    if r.violated:
        raise MachineryError(f"C10: the modelled protocol violates its own design invariant: {r.violated}")
    # deterministic order (TLC's 16 workers print in any order; calls of one cached method follow each other)
    lines = sorted(r.lines, key=lambda l: (l["problem"], l["entry"], l["primed"], l["fault"]["kind"], l["fault"]["name"], l["fault"]["a"], l["fault"]["b"]))
    cases = []
    for i, l in enumerate(lines):
        text, formats = PROBLEMS[l["problem"] - 1]
        asg = exprs.parse(text)
        cases.append({"cid": i, "entry": l["entry"], "text": text, "formats": formats,
                      "output_format": formats[asg["target"]], "args": l["args"] if isinstance(l["args"], dict) else {},
                      "positional": l["positional"], "primed": l["primed"], "base": l["base"] if isinstance(l["base"], dict) else {}})
    tasks = [{"id": str(b), "op": "call_batch", "cases": cases[b:b + 80]} for b in range(0, len(cases), 80)]
    nat = Pool().run(tasks)
    vio, judged, entered_ok, refused_ok = [], 0, 0, 0
    for tid, res in nat.items():
        if res.get("crashed"):
            i = res.get("progress")
            l = lines[i] if i is not None else {}
            vio.append({"what": f"process crashed on call {l.get('entry')} {PROBLEMS[l['problem'] - 1][0] if l else ''} fault={l.get('fault')}",
                        "key": {"clause": "crash", "fault": (l.get("fault") or {}).get("kind")}, "check": "c10", "case": l})
            continue
        for o in res["outs"]:
            l = lines[o["cid"]]
            text = PROBLEMS[l["problem"] - 1][0]
            desc = f"{l['entry']} {text} fault={l['fault']['kind']}({l['fault']['name']},{l['fault']['a']},{l['fault']['b']})" + \
                   (" right after a consistent call with arguments of equal content" if l["primed"] else "")
            judged += 1

            def bad(clause, detail):
                vio.append({"what": f"{clause}: {desc}: {detail}",
                            "key": {"clause": clause, "fault": l["fault"]["kind"], "entry": l["entry"], "primed": l["primed"]}, "check": "c10",
                            "case": {"line": l, "outcome": o}})

            if not l["consistent"]:
                if o["entered"]:
                    bad("kernel-entered-on-inconsistent-arguments", str(o))
                elif o["returned"]:
                    bad("result-returned-for-inconsistent-arguments", str(o))
                elif o["exc"] not in DOCUMENTED:
                    bad("undocumented-exception", f"{o['exc']}: {o.get('msg')}")
                else:
                    refused_ok += 1
            else:
                if o["returned"] and o["entered"]:
                    entered_ok += 1
                elif not o["returned"] and o["exc"] in REFUSALS_OK_WHEN_CONSISTENT and not o["entered"]:
                    refused_ok += 1
                elif not o["returned"]:
                    bad("consistent-call-refused", f"{o['exc']}: {o.get('msg')}")
                else:
                    bad("returned-without-entering", str(o))
    if entered_ok == 0 and any(l["consistent"] for l in lines):
        raise MachineryError("C10: the kernel-entry recorder never fired on a consistent call: the hook is not attached to this tree")
    cov = {"states": r.distinct, "transitions": r.generated, "traces_validated_against_impl": judged,
           "evaluations": len(lines), "distinct_nontrivial": sum(1 for l in lines if l["fault"]["kind"] != "none"),
           "rule": "CallProtocol.tla: 12 problems (3 participants per index, a tensor used twice with different index "
                   "lists, order 3, scalars, a free index) x {tensor_method, evaluate} x every single fault (missing, "
                   "extra, non-Tensor, order +-1, one mode flipped, ordering swapped, one dimension +-1, positional) "
                   "exhaustively; non-trivial = a call with a fault.",
           "samples": [l for l in lines if l["fault"]["kind"] == "dim"][:2] + [l for l in lines if l["fault"]["kind"] == "mode"][:1],
           "entered_consistent": entered_ok, "refused_properly": refused_ok, "exhaustive": True,
           "design_invariants": ["EnteredOnlyConsistent", "RefusedOnlyInconsistent"]}
    return {"violations": vio, "coverage": cov, "assumptions": ["argument tensors hold one entry at the origin (none when a dimension is 0) in the stated format/dimensions"]}


def replay(data):
    print(data["case"])
    return {"violations": [], "coverage": {}}
