"""C02 (see DESIGN.md section 4): projection of the central pipeline."""
from . import _pipe

RULE = ("every catalogue assignment x seeded format assignments (kernels of the working tree) x seeded inputs, run on "
        "spec/IRMachine.tla and judged by spec/KernelRun.tla against TensorAlgebra/Storage; every safe behaviour is "
        "replayed into the LLVM kernel evaluate uses; further inputs are run natively only and the recorded raw arrays "
        "validated by the same judge (observe). Non-trivial = the output stores a non-zero value; distinct = distinct "
        "(assignment, formats, capacity, dims, inputs).")


def run(tier, seed):
    out = _pipe.run_field("C02", "c02", tier, seed, RULE, filt=FILTER)
    # "hence any result can be used as an input to another kernel, converted, compared or pickled without error":
    # a third of the sparse-output kernels of the wide native pass chain their real result through to_format, ==,
    # pickle and two further kernels
    for cb in out["r"].get("chain_bad", []):
        out["violations"].append(_pipe.violation(cb, "result-not-usable(" + cb["what"] + ")", "native-chain", "C02"))
    # "well-formed in the REQUESTED format": the modes and mode ordering the returned tensor reports
    for x in out["recs"]:
        if "format-label" in (x.get("native") or {}).values():
            out["violations"].append(_pipe.violation(x, "returned-format-differs-from-requested", "native-replay", "C02"))
    for x in out["traces"]:
        if not x.get("dims_ok", True):
            out["violations"].append(_pipe.violation(x, "returned-dimensions-or-format-differ-from-requested", "native-trace", "C02"))
    out["coverage"]["chained_results"] = out["r"].get("chained", 0)
    return out


def replay(data):
    return _pipe.replay(data)


FILTER = _pipe.sparse_output
