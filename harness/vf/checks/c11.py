"""C11: tensor operators agree with element-wise and matrix arithmetic.

spec/Operators.tla draws operator applications and states the allowed answer (shape error, or value with result
dimensions and - for natural orderings - the documented result format).  Each is applied through the real dunder
methods in a sacrificial worker; the recorded result (raw arrays) is then validated as a trace by the judge of
spec/KernelRun.tla (observe): value = TensorAlgebra!Denote of the operator written as an assignment, canonical
structure, no phantom coordinates.
"""
from __future__ import annotations

from ..common import dump, dyadic, undyadic
from ..native import Pool
from ..tlc import MachineryError, run_tlc, workdir

PARAMS = {
    "quick": [dict(maxorder=1, maxdim=2, maxcells=2, simulate=None), dict(maxorder=2, maxdim=2, maxcells=2, simulate=1500),
              dict(maxorder=3, maxdim=2, maxcells=2, simulate=400)],
    "thorough": [dict(maxorder=1, maxdim=3, maxcells=3, simulate=None), dict(maxorder=2, maxdim=2, maxcells=3, simulate=40000),
                 dict(maxorder=3, maxdim=2, maxcells=2, simulate=10000)],
}
ALLOWED_REFUSALS = {"NoKernelFoundError"}


def fmt_str(f):
    return "".join(m + str(o) for m, o in zip(f["modes"], f["ordering"]))


def operand(line, side):
    f, d, p, c = (line["fa"], line["da"], line["pa"], line["ca"]) if side == "a" else (line["fb"], line["db"], line["pb"], line["cb"])
    is_number = (line["kind"] == "tn" and side == "b") or (line["kind"] == "nt" and side == "a")
    if is_number:
        # the Python number arrives as a float, an int, a Fraction or a bool (all numbers.Real), chosen by the content
        v = undyadic(c[0][1]) if c else 0.0
        kinds = ["float", "int", "fraction"] + (["bool"] if v in (0.0, 1.0) else [])
        return {"number": v, "numtype": kinds[(len(line["da"]) + len(line["db"]) + int(abs(v) * 2) + len(line["op"]) + ord(line["op"][0])) % len(kinds)]
                if float(v).is_integer() else ["float", "fraction"][int(abs(v) * 4) % 2]}
    return {"fmt": f, "dims": list(d), "levels": p["levels"], "vals": [undyadic(v) for v in p["vals"]]}


def run(tier, seed):
    lines, states, trans = [], 0, 0
    exhaustive = False
    for P in PARAMS[tier]:
        d = workdir("c11")
        cfg = d / "Operators.cfg"
        cfg.write_text(f"SPECIFICATION Spec\nCONSTANTS\n  MaxOrder = {P['maxorder']}\n  MaxDim = {P['maxdim']}\n"
                       f"  MaxCells = {P['maxcells']}\n  MatOrders = {'{1, 2, 3}' if P['simulate'] else '{1}'}\nINVARIANT Emit\nCHECK_DEADLOCK FALSE\n")
        if P["simulate"]:
            r = run_tlc("Operators", str(cfg), simulate=f"num={P['simulate']}", depth=8, seed=seed + 11, workers=1, timeout=1800)
        else:
            r = run_tlc("Operators", str(cfg), timeout=1800)
        import shutil

        shutil.rmtree(d, ignore_errors=True)
        states += r.distinct
        trans += r.generated
        lines += r.lines
    seen, uniq = set(), []
    for l in lines:
        k = repr(l)
        if k not in seen:
            seen.add(k)
            uniq.append(l)
    lines = uniq
    if not lines:
        raise MachineryError("C11: no operator application generated")
    # group by kernel-ish key so that each worker compiles few kernels
    groups = {}
    for i, l in enumerate(lines):
        groups.setdefault((l["op"], l["kind"], fmt_str(l["fa"]), fmt_str(l["fb"])), []).append(i)
    tasks = []
    for gi, (_, idxs) in enumerate(sorted(groups.items())):
        tasks.append({"id": str(gi), "op": "operator_batch", "cap": 1 + gi % 2,
                      "cases": [{"cid": i, "op": lines[i]["op"], "left": operand(lines[i], "a"), "right": operand(lines[i], "b")}
                                for i in idxs]})
    # merge small tasks to amortise process start-up
    merged, cur = [], None
    for t in tasks:
        if cur is None or len(cur["cases"]) > 60:
            cur = {"id": str(len(merged)), "op": "operator_batch", "cases": [], "cap": 1 + len(merged) % 2}
            merged.append(cur)
        cur["cases"] += t["cases"]
    nat = Pool().run(merged)
    outcome = {}
    vio = []
    for tid, res in nat.items():
        if res.get("crashed"):
            i = res.get("progress")
            if i is not None:
                l = lines[i]
                vio.append({"what": f"operator {l['op']} crashed the process: {fmt_str(l['fa'])} {l['da']} {l['op']} {fmt_str(l['fb'])} {l['db']}",
                            "key": {"clause": "crash", "op": l["op"]}, "check": "c11", "case": l})
            continue
        for o in res["outs"]:
            outcome[o["cid"]] = o
    obs_cases, obs_meta = [], {}
    refusals = judged = 0
    for i, l in enumerate(lines):
        o = outcome.get(i)
        if o is None:
            continue
        desc = f"{fmt_str(l['fa'])}{list(l['da'])} {l['op']} {fmt_str(l['fb'])}{list(l['db'])} kind={l['kind']}"

        def bad(clause, detail):
            vio.append({"what": f"{clause}: {desc}: {detail}", "key": {"clause": clause, "op": l["op"], "kind": l["kind"]},
                        "check": "c11", "case": l})

        if l["expect"] == "shape-error":
            judged += 1
            if "exc" not in o:
                bad("shape-error-not-raised", f"returned {o['out']}")
            elif o["exc"] != "ValueError":
                bad("wrong-exception", f"{o['exc']}: {o.get('msg')}")
            continue
        if "exc" in o:
            if o["exc"] in ALLOWED_REFUSALS:
                refusals += 1
            else:
                bad("raised-" + o["exc"], o.get("msg"))
            continue
        judged += 1
        out = o["out"]
        if list(out["dims"]) != list(l["rdims"]):
            bad("result-dimensions", f"{out['dims']} != {l['rdims']}")
            continue
        if l["natural"] and (out["modes"] != list(l["rmodes"]) or out["ordering"] != list(range(len(out["modes"])))):
            bad("result-format", f"{out['modes']}{out['ordering']} != {l['rmodes']} (documented rule)")
        vals = [dyadic(v) for v in out["vals"]]
        if any(v is None or abs(v["n"]) > 32767 for v in vals):
            continue
        asg = l["asg"]
        dims = {}
        for leaf, dd in ((asg["rhs"]["l"], l["da"]), (asg["rhs"]["r"], l["db"])):
            for ix, size in zip(leaf["idx"], dd):
                dims[ix] = size
        cid = len(obs_cases) + 1
        tensors = {"output": {"fmt": {"modes": out["modes"], "ordering": out["ordering"]}, "idx": list(asg["tidx"])},
                   "left": {"fmt": l["fa"], "idx": list(asg["rhs"]["l"]["idx"])},
                   "right": {"fmt": l["fb"], "idx": list(asg["rhs"]["r"]["idx"])}}
        obs_cases.append({"id": cid, "names": ["output", "left", "right"], "target": "output", "tensors": tensors,
                          "asg": asg, "dimsets": [dict(dims, _=0)],
                          "vals": [{"left": l["ca"], "right": l["cb"], "_": []}],
                          "script": [{"op": "load", "val": 1, "dims": 1}, {"op": "observe", "k": 1}], "judge": "single",
                          "emit": False, "emitraw": False, "npre": 0, "obs": [{"levels": out["levels"], "vals": vals}]})
        obs_meta[cid] = (i, desc)
    ntr = 0
    if obs_cases:
        d = workdir("c11o")
        from ..irtrees import machine_chunks

        r2 = machine_chunks([], obs_cases, d, "c11obs", per_chunk=6000)   # bounded constants per TLC run
        import shutil

        shutil.rmtree(d, ignore_errors=True)
        if len(r2.lines) != len(obs_cases):
            raise MachineryError(f"C11: {len(r2.lines)} verdicts for {len(obs_cases)} traces")
        states += r2.distinct
        trans += r2.generated
        ntr = len(r2.lines)
        for vl in r2.lines:
            i, desc = obs_meta[vl["case"]]
            for f, clause in (("c01", "wrong-value"), ("c02", "not-canonical"), ("c03", "phantom")):
                if vl["v"][f] not in ("ok", "n/a"):
                    vio.append({"what": f"{clause} ({vl['v'][f]}): {desc}: result {outcome[i]['out']}",
                                "key": {"clause": clause, "op": lines[i]["op"], "kind": lines[i]["kind"]},
                                "check": "c11", "case": lines[i]})
    nontrivial = sum(1 for i, l in enumerate(lines) if l["expect"] == "value" and (l["ca"] or l["cb"]))
    cov = {"states": states, "transitions": trans, "traces_validated_against_impl": ntr + judged,
           "evaluations": len(lines), "distinct_nontrivial": nontrivial,
           "rule": "Operators.tla: operator x operand kinds x formats x (un)equal dimensions x stored subsets; exhaustive "
                   "for orders <= 1, -simulate for order 2 (3 in thorough). Non-trivial = a value is expected and some "
                   "operand stores an entry.",
           "samples": [l for l in lines if l["expect"] == "value" and l["ca"] and l["cb"]][:3] + [l for l in lines if l["expect"] == "shape-error"][:1],
           "value_traces": ntr, "no_kernel_refusals": refusals, "exhaustive": exhaustive, "bounds": PARAMS[tier]}
    return {"violations": vio, "coverage": cov, "assumptions": ["values are small exact dyadics (positional integers)"]}


def replay(data):
    print(data["case"])
    return {"violations": [], "coverage": {}}
