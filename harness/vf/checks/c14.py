"""C14: concurrent evaluations behave like sequential ones.

spec/Concurrency.tla models one call per thread at the granularity of the shared-state touch points.
 (1) TLC checks KernelMatches, OwnMatches, LockMutex, CacheBound, CacheSound, Sequential, NoSharedStruct over ALL
     interleavings of 2 threads (thorough: 3) for cold/warm/same/different/cffi/mixed scenarios;
 (2) spec -> code: schedules drawn from the same model (-simulate) are replayed through the real evaluate with a
     deterministic scheduler whose yield points are recording wrappers applied from outside; every call must return
     the raw arrays it returns alone;
 (3) code -> spec: free-running rounds of 16 threads (switch interval 1 us, mixed cold problems, both back ends);
     the events, stamped under the recorder lock at the touch points, must be a behaviour of the same actions
     (Tracing = TRUE) with kernel/struct identities taken from the log.
"""
from __future__ import annotations

import os
import random

from .. import exprs, kernels, pipeline
from ..common import SPEC, dump
from ..native import Pool
from ..tlc import MachineryError, run_tlc, workdir

INVARIANTS = ["KernelMatches", "OwnMatches", "LockMutex", "CacheBound", "CacheSound", "Sequential", "NoSharedStruct"]
PARAMS = {"quick": dict(schedules=14, free_rounds=5, nthreads=16, three=False, hammer_rounds=2, hammer_calls=150, heavy_rounds=4),
          "thorough": dict(schedules=400, free_rounds=40, nthreads=16, three=True, hammer_rounds=8, hammer_calls=800, heavy_rounds=20)}


def make_requests(rng):
    def tensor(fmt, dims, content):
        f = kernels.fmt_record(fmt)
        return {"fmt": f, "dims": dims, **pipeline._py_pack(content, f, dims)}

    def content(dims, n):
        import itertools

        cells = list(itertools.product(*[range(d) for d in dims]))
        return [[list(c), {"n": rng.choice([1, 2, 3, -1]), "e": 0}] for c in sorted(rng.sample(cells, min(n, len(cells))))]

    A = tensor("d0s1", [4, 5], content([4, 5], 9))
    reqs = {}
    for name, backend in (("r1", "llvm"), ("r2", "llvm"), ("r4", "cffi"), ("r6", "cffi")):
        reqs[name] = {"text": "y(i) = A(i,j) * x(j)", "output_format": "s", "backend": backend,
                      "inputs": {"A": A, "x": tensor("d0", [5], content([5], 5))}}
    # the same problem (same cached kernel) on arguments of another size
    A2 = tensor("d0s1", [6, 5], content([6, 5], 11))
    reqs["r8"] = {"text": "y(i) = A(i,j) * x(j)", "output_format": "s", "backend": "llvm",
                  "inputs": {"A": A2, "x": tensor("d0", [5], content([5], 5))}}
    reqs["r9"] = {"text": "y(i) = A(i,j) * x(j)", "output_format": "s", "backend": "cffi",
                  "inputs": {"A": A2, "x": tensor("d0", [5], content([5], 5))}}
    reqs["r3"] = {"text": "a(i) = b(i) + c(i)", "output_format": "s", "backend": "llvm",
                  "inputs": {"b": tensor("s0", [6], content([6], 3)), "c": tensor("s0", [6], content([6], 3))}}
    reqs["r5"] = {"text": "a(i,j) = b(i,j) * c(i,j)", "output_format": "ds", "backend": "cffi",
                  "inputs": {"b": tensor("d0s1", [3, 4], content([3, 4], 6)), "c": tensor("d0d1", [3, 4], content([3, 4], 12))}}
    reqs["r7"] = {"text": "o() = u(i) * v(i)", "output_format": "", "backend": "llvm",
                  "inputs": {"u": tensor("s0", [7], content([7], 4)), "v": tensor("d0", [7], content([7], 7))}}
    # tensor operators with a Python number (they evaluate through the same cache): long dense operands so that a call
    # is in flight for a while
    big = tensor("d0", [3000], [[[i], {"n": 1 + i % 3, "e": 0}] for i in range(3000)])
    mat = tensor("d0s1", [40, 50], content([40, 50], 700))
    for name, o in (("o1", {"op": "*", "left": big, "right": 2.0}), ("o2", {"op": "-", "left": 3.0, "right": big}),
                    ("o3", {"op": "+", "left": big, "right": 0.5}), ("o4", {"op": "*", "left": -1.5, "right": big}),
                    ("o5", {"op": "*", "left": mat, "right": 4.0}), ("o6", {"op": "+", "left": mat, "right": mat})):
        reqs[name] = {"operator": o, "backend": "llvm"}
    # heavy kernels (dense 120 x 120 matrix product): a call is in flight for milliseconds, so that whatever a second
    # thread does to a kernel object during its FIRST use (compiling it again, replacing it) meets a running call
    import itertools as _it

    def full(dims, f):
        return tensor(f, dims, [[list(c), {"n": 1 + (c[0] + 2 * c[1]) % 3, "e": 0}] for c in _it.product(*[range(d) for d in dims])])

    for name, backend in (("h1", "llvm"), ("h2", "cffi")):
        reqs[name] = {"text": "c(i,k) = a(i,j) * b(j,k)", "output_format": "dd", "backend": backend,
                      "inputs": {"a": full([120, 120], "d0d1"), "b": full([120, 120], "d0d1")}}
    keys = {"h1": "kh1", "h2": "kh2", "o1": "ko1", "o2": "ko2", "o3": "ko3", "o4": "ko4", "o5": "ko5", "o6": "ko6", "r1": "k1", "r2": "k1", "r8": "k1", "r9": "k4", "r3": "k3", "r4": "k4", "r6": "k4", "r5": "k5", "r7": "k7"}
    return reqs, keys


def tla_fn(d: dict) -> str:
    def v(x):
        return f'"{x}"' if isinstance(x, str) else str(x)

    return " @@ ".join(f"({v(k)} :> {v(x)})" for k, x in d.items()) if d else "<<>>"


def mc_module(tag, threads, reqs, keys, warm, tracing):
    name = f"MC_Conc_{tag}"
    reqof = {t: r for t, r in threads}
    used = sorted({r for _, r in threads})
    body = (f"---- MODULE {name} ----\nEXTENDS Concurrency\n"
            f"mc_Threads == {{{', '.join(str(t) for t, _ in threads)}}}\n"
            f"mc_ReqOf == {tla_fn(reqof)}\n"
            f"mc_KeyOf == {tla_fn({r: keys[r] for r in used})}\n"
            f"mc_BackendOf == {tla_fn({r: reqs[r]['backend'] for r in used})}\n"
            f"mc_Warm == {{{', '.join(chr(34) + k + chr(34) for k in warm)}}}\n====\n")
    (SPEC / f"{name}.tla").write_text(body)
    cfg_common = ("CONSTANTS\n  Threads <- mc_Threads\n  ReqOf <- mc_ReqOf\n  KeyOf <- mc_KeyOf\n  BackendOf <- mc_BackendOf\n"
                  f"  Warm <- mc_Warm\n  MaxSize = 128\n  Tracing = {'TRUE' if tracing else 'FALSE'}\n")
    return name, cfg_common


def run(tier, seed):
    P = PARAMS[tier]
    rng = random.Random(14 * seed + 14)
    reqs, keys = make_requests(rng)
    scenarios = [("same-cold", [(1, "r1"), (2, "r2")], []), ("same-warm", [(1, "r1"), (2, "r2")], ["k1"]),
                 ("different-cold", [(1, "r1"), (2, "r3")], []), ("cffi-same", [(1, "r4"), (2, "r6")], []),
                 ("mixed", [(1, "r1"), (2, "r4")], []), ("cffi-different", [(1, "r4"), (2, "r5")], []),
                 ("same-kernel-other-sizes", [(1, "r1"), (2, "r8")], ["k1"]), ("same-kernel-other-sizes-cffi", [(1, "r4"), (2, "r9")], ["k4"])]
    if P["three"]:
        scenarios += [("three-same", [(1, "r1"), (2, "r2"), (3, "r1")], []), ("three-mixed", [(1, "r1"), (2, "r4"), (3, "r3")], [])]
    tag = f"{os.getpid()}"
    d = workdir("c14")
    states = trans = 0
    rounds = []
    created = []
    try:
        # (1) + schedules for (2)
        import concurrent.futures as cf0

        def model_check(arg):
            si, (sname, threads, warm) = arg
            mod, cfgc = mc_module(f"{tag}_{si}", threads, reqs, keys, warm, False)
            cfg = d / f"{mod}.cfg"
            cfg.write_text("SPECIFICATION Spec\n" + cfgc + "".join(f"INVARIANT {i}\n" for i in INVARIANTS) + "VIEW View\nCHECK_DEADLOCK FALSE\n")
            r = run_tlc(mod, str(cfg), workers=4, heap="2g")
            cfg2 = d / f"{mod}_sim.cfg"
            cfg2.write_text("SPECIFICATION Spec\n" + cfgc + "INVARIANT EmitSchedule\nCHECK_DEADLOCK FALSE\n")
            rs = run_tlc(mod, str(cfg2), simulate=f"num={P['schedules']}", depth=80, seed=seed + si + 1, workers=1, heap="1g")
            return mod, sname, threads, warm, r, rs

        with cf0.ThreadPoolExecutor(max_workers=8) as ex:
            checked = list(ex.map(model_check, enumerate(scenarios)))
        for mod, sname, threads, warm, r, rs in checked:
            created.append(mod)
            if r.violated:
                raise MachineryError(f"C14: the concurrency model violates {r.violated} in scenario {sname}")
            states += r.distinct
            trans += r.generated
            seen = set()
            for l in rs.lines:
                key = tuple(l["sched"])
                if key in seen:
                    continue
                seen.add(key)
                rounds.append({"rid": len(rounds), "scenario": sname, "threads": threads, "warm": [w for w in
                               [next(rn for rn, k in keys.items() if k == wk) for wk in warm]], "schedule": list(key)})
        n_sched = len(rounds)
        # (3) free-running rounds
        names = list(reqs)
        for fr in range(P["free_rounds"]):
            nth = P["nthreads"]
            pick = [rng.choice([n_ for n_ in names if n_[0] not in "oh"]) for _ in range(nth)]
            if fr % 2 == 0:
                pick = [rng.choice(["r1", "r2", "r3", "r7", "r8", "r8"]) for _ in range(nth - 3)] + [rng.choice(["r4", "r5", "r6"]) for _ in range(3)]
            threads = [(i + 1, pick[i]) for i in range(nth)]
            rounds.append({"rid": len(rounds), "scenario": "free", "threads": threads, "warm": [], "schedule": None})
        # hammer rounds: 16 threads x many calls of the same cached kernels on arguments of different sizes
        for hr in range(P.get("hammer_rounds", 2)):
            threads = [(i + 1, ["r1", "r8", "r2", "r8"][i % 4] if hr % 2 == 0 else ["r4", "r9", "r6", "r9"][i % 4]) for i in range(P["nthreads"])]
            rounds.append({"rid": len(rounds), "scenario": "hammer", "threads": threads, "warm": [threads[0][1]], "schedule": None,
                           "hammer": P.get("hammer_calls", 300)})
        # cold heavy rounds: every thread makes the first call of the same never-compiled heavy kernel at once
        for hr in range(P.get("heavy_rounds", 3)):
            nm = "h2" if hr % 3 == 2 else "h1"
            rounds.append({"rid": len(rounds), "scenario": "cold-heavy", "threads": [(i + 1, nm) for i in range(8)], "warm": [],
                           "schedule": None, "results_only": True})
        # operator hammer: every thread applies a tensor operator with its own Python number, over and over
        for hr in range(max(1, P.get("hammer_rounds", 2) // 2)):
            threads = [(i + 1, ["o1", "o2", "o3", "o4", "o5", "o6"][i % 6]) for i in range(P["nthreads"])]
            rounds.append({"rid": len(rounds), "scenario": "operator-hammer", "threads": threads, "warm": ["o1"], "schedule": None,
                           "hammer": max(40, P.get("hammer_calls", 300) // 3)})
        # run all rounds natively (several sacrificial workers, each with its own interpreter)
        # long rounds (hammer, cold-heavy) get a worker of their own, the others are chunked
        long_rounds = [rd for rd in rounds if rd.get("hammer") or rd.get("results_only")]
        short_rounds = [rd for rd in rounds if not (rd.get("hammer") or rd.get("results_only"))]
        chunks = [short_rounds[i::12] for i in range(12)] + [[rd] for rd in long_rounds]
        tasks = [{"id": str(i), "op": "concurrency", "requests": reqs, "rounds": ch, "timeout": 1500} for i, ch in enumerate(chunks) if ch]
        nat = Pool(14).run(tasks)
        # wall-clock limits say little on a loaded machine: a round that looked hung (or whose worker ran into its time
        # limit) is run again alone, in a fresh worker, with five-fold patience; only the second verdict counts
        again = []
        for tid, res in list(nat.items()):
            if res.get("crashed") and res.get("timed_out") and res.get("progress") is not None:
                again.append(rounds[res["progress"]])
                del nat[tid]
            elif not res.get("crashed"):
                for o in res["rounds"]:
                    if o["hung"]:
                        again.append(rounds[o["rid"]])
                res["rounds"] = [o for o in res["rounds"] if not o["hung"]]
        if again:
            retry = Pool(4).run([{"id": f"again{i}", "op": "concurrency", "requests": reqs, "rounds": [rd], "timeout": 4500, "patience": 5}
                                 for i, rd in enumerate(again)])
            nat.update(retry)
        vio = []
        outs = {}
        for tid, res in nat.items():
            if res.get("crashed"):
                rid = res.get("progress")
                rd = rounds[rid] if rid is not None else {}
                vio.append({"what": f"process crashed or hung during concurrent round {rd.get('scenario')} threads={rd.get('threads')} schedule={rd.get('schedule')}",
                            "key": {"clause": "crash", "scenario": rd.get("scenario")}, "check": "c14", "case": rd})
                continue
            for o in res["rounds"]:
                outs[o["rid"]] = o
        # the recording wrappers must have been reached at all: a tree on which they no longer fire is not judged
        seen_events = {e["ev"] for o in outs.values() for e in o.get("events", [])}
        if outs and not {"enter", "alloc", "lookup"} <= seen_events:
            raise MachineryError(f"C14: the recording wrappers are not attached to this tree (events seen: {sorted(seen_events)})")
        traces = 0
        jobs = []
        for rd in rounds:
            o = outs.get(rd["rid"])
            if o is None:
                continue
            desc = f"{rd['scenario']} threads={rd['threads']} schedule={rd['schedule']}"
            if o["hung"]:
                vio.append({"what": f"deadlock/hang in round {desc}", "key": {"clause": "hang", "scenario": rd["scenario"]},
                            "check": "c14", "case": rd})
                continue
            for t, err in o["errors"].items():
                vio.append({"what": f"thread {t} raised {err} in round {desc}", "key": {"clause": "exception", "scenario": rd["scenario"]},
                            "check": "c14", "case": rd})
            for t, same in o["same"].items():
                if not same and t not in o["errors"]:
                    vio.append({"what": f"thread {t} returned a different result than the same call made alone in round {desc}",
                                "key": {"clause": "result-differs-from-sequential", "scenario": rd["scenario"]}, "check": "c14",
                                "case": {**rd, "events": o["events"][:200]}})
            # code -> spec: every recorded cold round (scheduled or free) is validated as a trace; kernels compiled
            # before a warm round started have no jit event, so warm rounds are judged by their results only
            if o["errors"] or rd["warm"] or rd.get("hammer") or rd.get("results_only"):
                continue
            mod, cfgc = mc_module(f"{tag}_t{rd['rid']}", [tuple(x) for x in rd["threads"]], reqs, keys, [], True)
            created.append(mod)
            tp = d / f"trace{rd['rid']}.json"
            dump(o["events"], tp)
            cfg = d / f"{mod}.cfg"
            cfg.write_text("SPECIFICATION Spec\n" + cfgc + "".join(f"INVARIANT {i}\n" for i in INVARIANTS if i not in ("Sequential", "CacheSound", "CacheBound"))
                           + "POSTCONDITION TraceAccepted\nCHECK_DEADLOCK FALSE\n")
            jobs.append((rd, o, desc, mod, cfg, tp))
        import concurrent.futures as cf

        def validate(job):
            rd, o, desc, mod, cfg, tp = job
            return job, run_tlc(mod, str(cfg), env={"VF_TRACE": tp}, workers=1, allow_fail=True, deque=True, heap="1g")

        with cf.ThreadPoolExecutor(max_workers=12) as ex:
            for (rd, o, desc, mod, cfg, tp), rt in ex.map(validate, jobs):
                traces += 1
                states += rt.distinct
                trans += rt.generated
                if rt.violated:
                    vio.append({"what": f"trace of round {desc} violates {rt.violated}", "key": {"clause": "trace-invariant", "scenario": rd["scenario"]},
                                "check": "c14", "case": {**rd, "events": o["events"][:300]}})
                elif not rt.lines or not rt.lines[-1].get("accepted"):
                    v = rt.lines[-1] if rt.lines else {}
                    vio.append({"what": f"trace of round {desc} is not a behaviour of Concurrency.tla: stuck at event {v.get('stuck_at')} {v.get('event')}",
                                "key": {"clause": "trace-rejected", "scenario": rd["scenario"], "event": (v.get("event") or {}).get("ev")},
                                "check": "c14", "case": {**rd, "events": o["events"][:300]}})
    finally:
        for f in SPEC.glob(f"MC_Conc_{tag}_*.tla"):
            try:
                f.unlink()
            except OSError:
                pass
        import shutil

        shutil.rmtree(d, ignore_errors=True)
    cov = {"states": states, "transitions": trans, "traces_validated_against_impl": traces, "evaluations": len(rounds),
           "distinct_nontrivial": len({(tuple(map(tuple, rd["threads"])), tuple(rd["schedule"] or ())) for rd in rounds if rd["schedule"]}) +
                                  sum(1 for rd in rounds if rd["schedule"] is None),
           "rule": "scenarios same/different/warm/cffi/mixed: exhaustive TLC over all interleavings of the model; "
                   "-simulate schedules replayed through the real evaluate under a deterministic scheduler; free-running "
                   "rounds of 16 threads validated as traces. Non-trivial = distinct (threads, schedule) replays + free rounds.",
           "samples": [{k: rd[k] for k in ("scenario", "threads", "schedule")} for rd in rounds[:2]] +
                      [{"scenario": "free", "threads": rounds[-1]["threads"], "events": (outs.get(rounds[-1]["rid"]) or {}).get("events", [])[:12]}],
           "scheduled_replays": n_sched, "free_rounds": P["free_rounds"], "threads_per_free_round": P["nthreads"],
           "design_invariants": INVARIANTS, "exhaustive": False}
    return {"violations": vio, "coverage": cov,
            "assumptions": ["interleavings are enumerated at the granularity of the shared-state touch points, not of byte code",
                            "races inside llvmlite/cffi native code between yield points are exercised only by the free-running rounds"]}


def replay(data):
    print(data["case"])
    return {"violations": [], "coverage": {}}
