"""C16: work follows sparsity.  Self-composition on spec/KernelRun.tla (judge "scale"): the evaluate kernel is run
on the same stored entries with a sparse-only dimension enlarged x3 and x10^4; loop iterations and executed
statements must be equal.  Applicability is decided by TensorAlgebra!SparseOnlyIndex inside the judge."""
from __future__ import annotations

import random

from .. import exprs, kernels, kset, pipeline
from ..common import Timer, dump
from ..tlc import MachineryError, run_tlc, workdir
from . import _pipe

PARAMS = {"quick": dict(per=6, tries=200, inputs=4), "thorough": dict(per=40, tries=1500, inputs=10)}
SCALES = [3, 10000]


def run(tier, seed):
    P = PARAMS[tier]
    rng = random.Random(16 * seed + 16)
    programs: list = []
    klist = kset.select(rng, ["evaluate"], P["per"], P["tries"], 1, programs=programs,
                        want=lambda k: bool(exprs.sparse_only_indexes(k.asg, k.formats)))
    # Context.is_sparse (the mechanism that lets a loop skip coordinates) is compared with spec/Structure.tla; a
    # deviation is a NOTE, and the requests exercising it join the kernels judged below by the scale judge
    from .. import structure_conf

    sv, sr, sn = structure_conf.check_sparse(tier)
    structure_conf.note("C16", sv, "Context.is_sparse")
    n_witness = 0
    for text, fm in structure_conf.witness_requests(sv, limit=80):
        probe = kernels.compile_kernel(text, fm, ["evaluate"], [], cap=1)
        if probe.error or not exprs.sparse_only_indexes(probe.asg, probe.formats):
            continue
        klist.append((kernels.compile_kernel(text, fm, ["evaluate"], programs, cap=1), "structure-witness"))
        n_witness += 1
    cases, meta = [], {}
    cls_cache = {}
    for ki, (k, group) in enumerate(klist):
        cls = exprs.index_classes(k.asg)
        for x in exprs.sparse_only_indexes(k.asg, k.formats):
            for dims, content in pipeline.input_sets(k.asg, rng, P["inputs"]):
                if dims[x] == 0:
                    continue
                dimsets = [dims]
                for f in SCALES:
                    dimsets.append({i: (d * f if cls[i] == cls[x] else d) for i, d in dims.items()})
                # every index of x's size class must itself be sparse-only, otherwise enlarging is not well-defined
                if any(cls[i] == cls[x] and i not in exprs.sparse_only_indexes(k.asg, k.formats) for i in dims):
                    continue
                script = []
                for di in range(len(dimsets)):
                    script += [{"op": "load", "val": 1, "dims": di + 1},
                               {"op": "run", "prog": k.progs["evaluate"], "track": False},
                               {"op": "snap", "vals": True}]
                cid = len(cases) + 1
                c = kernels.base_case(k, cid, dimsets, [content], script, "scale", emit=False)
                c["scaled"] = x
                cases.append(c)
                meta[cid] = {"kernel": ki, "text": k.text, "formats": k.formats, "cap": 1, "group": group,
                             "dims": dims, "content": content, "scaled_index": x}
    if not cases:
        raise MachineryError("C16: no applicable kernel found (vacuous run)")
    d = workdir("c16")
    # chunked runs (each with only the programs it needs): the thorough tier's constants are too large for one TLC run
    from ..irtrees import machine_chunks

    r = machine_chunks(programs, cases, d, "c16", per_chunk=2500)
    import shutil

    shutil.rmtree(d, ignore_errors=True)
    if len(r.lines) != len(cases):
        raise MachineryError(f"C16: {len(r.lines)} verdicts for {len(cases)} cases")
    vio, na, inconclusive, judged = [], 0, 0, []
    for l in r.lines:
        v = l["v"]["c16"]
        m = meta[l["case"]]
        if v == "not-applicable":
            na += 1
        elif v.startswith("fault-"):
            inconclusive += 1  # a fault in the base run is C05's business
        else:
            judged.append((m, l))
            if v != "ok":
                vio.append(_pipe.violation({**m, "v": l["v"]}, f"{v}(index {m['scaled_index']}: {l['v']['base']} -> {l['v']['scaled']} steps)",
                                           "machine", "C16"))
    if not judged:
        raise MachineryError("C16: no behaviour was judged (vacuous run)")
    nontrivial = {(m["text"], str(m["formats"]), m["scaled_index"], str(m["dims"]), str(m["content"]))
                  for m, l in judged if l["iters"] > 0}
    cov = {"states": r.distinct, "transitions": r.generated, "traces_validated_against_impl": 0,
           "evaluations": len(cases), "distinct_nontrivial": len(nontrivial),
           "rule": "catalogue x seeded formats with a sparse-only index (TensorAlgebra!SparseOnlyIndex) x seeded inputs "
                   "x scale factors 3 and 10^4 of that dimension, identical stored entries; non-trivial = the kernel "
                   "executes at least one loop iteration at the largest scale",
           "samples": [{"assignment": m["text"], "formats": m["formats"], "scaled_index": m["scaled_index"],
                        "dims": m["dims"], "inputs": m["content"], "verdict": l["v"]} for m, l in judged[:4]],
           "kernels": len(klist), "judged": len(judged), "not_applicable": na, "base_run_faults": inconclusive,
           "exhaustive": False,
           "binding": "the IR is the working tree's compiler output; counters are the machine's (native time is not measured)"}
    cov["states"] += sr.distinct
    cov["transitions"] += sr.generated
    cov["is_sparse_expressions_compared"] = sn
    cov["traces_validated_against_impl"] += sn   # each comparison runs the real extract_context
    cov["is_sparse_deviations"] = len(sv)
    cov["structure_witness_kernels"] = n_witness
    return {"violations": vio, "coverage": cov, "assumptions": _pipe.ASSUMPTIONS}


def replay(data):
    from .. import catalogue

    catalogue.CATALOGUE[:] = [("replay", data["case"]["text"])]
    catalogue.BROADCAST_TARGET[:] = []
    return run("thorough", 0)
