"""Shared projection of the central pipeline's result onto one property."""
from __future__ import annotations

from .. import exprs, pipeline

ASSUMPTIONS = [
    "values are exact dyadics (|numerator| <= 32767, <= 14 fractional bits): IEEE double arithmetic of the real "
    "back ends is exact on them, so all comparisons are equalities",
    "the IR abstract machine (spec/IRMachine.tla) models realloc as always moving and invalidating",
    "inputs are Storage!Pack'ed by the specification (well-formed by the theorems of spec/StorageMC.tla)",
    "requests: harness catalogue x seeded format assignments; dimension sizes 0..3",
]


def key_of(rec: dict, clause: str, stage: str) -> dict:
    asg = exprs.parse(rec["text"])
    return {"text": rec["text"], "formats": ",".join(f"{k}:{v}" for k, v in rec["formats"].items()),
            "cap": rec["cap"], "clause": clause, "stage": stage, "group": rec.get("group"),
            "shape": ",".join(exprs.shape_tags(asg))}


def violation(rec: dict, clause: str, stage: str, check: str) -> dict:
    return {
        "what": f"{clause} [{stage}] {rec['text']} {rec['formats']} cap={rec['cap']} dims={rec.get('dims')}",
        "key": key_of(rec, clause, stage),
        "check": check,
        "case": {k: rec.get(k) for k in ("text", "formats", "cap", "dims", "content", "out", "v", "native", "group")},
    }


def sample(rec: dict) -> dict:
    return {"assignment": rec["text"], "formats": rec["formats"], "initial_capacity": rec["cap"],
            "dims": rec.get("dims"), "inputs": rec.get("content"), "output": rec.get("out"), "verdict": rec.get("v"),
            "native": rec.get("native")}


def nontrivial(rec: dict) -> bool:
    out = rec.get("out") or {}
    vals = out.get("vals") or []
    return any(v.get("n", 0) != 0 for v in vals if isinstance(v, dict))


def coverage(r: dict, recs: list, traces: list, rule: str, extra: dict | None = None) -> dict:
    distinct = {(x["text"], str(x["formats"]), x["cap"], str(x.get("dims")), str(x.get("content")))
                for x in recs + traces if nontrivial(x)}
    nt = [x for x in recs if nontrivial(x)]
    cov = {
        "states": r["states"], "transitions": r["transitions"],
        "traces_validated_against_impl": len(traces) + sum(1 for x in recs if x.get("native")),
        "evaluations": len(recs) + len(traces),
        "distinct_nontrivial": len(distinct),
        "rule": rule,
        "samples": [sample(x) for x in (nt[:3] + recs[:1])] or [sample(x) for x in recs[:2]],
        "kernels": r["kernels"], "machine_behaviours": len(recs), "native_traces": len(traces),
        "depth": r["depth"], "exhaustive": False, "pipeline_wall_s": r["wall"],
        "kernels_with_all_input_patterns": r.get("exhaustive_input_kernels", 0),
        "behaviours_from_all_input_patterns": r.get("exhaustive_input_behaviours", 0),
    }
    if extra:
        cov.update(extra)
    return cov


def run_field(prop: str, field: str, tier: str, seed: int, rule: str, *, filt=None) -> dict:
    r = pipeline.run(tier, seed)
    recs = [x for x in r["records"] if filt is None or filt(x)]
    traces = [x for x in r["traces"] if filt is None or filt(x)]
    vio = []
    inconclusive = 0
    for x in recs:
        v = x["v"].get(field, "n/a")
        if field in ("c01", "c03") and {"big-literal", "inexact-literal"} & set(exprs.shape_tags(exprs.parse(x["text"]))):
            inconclusive += 1  # the TLA+ oracle cannot represent the literal: judged natively (C06), not here
        elif v in ("value-range", "unsupported-node"):
            inconclusive += 1
        elif v not in ("ok", "n/a"):
            vio.append(violation(x, v, "machine", prop))
    for x in traces:
        v = x["v"].get(field, "n/a")
        if field in ("c01", "c03") and {"big-literal", "inexact-literal"} & set(exprs.shape_tags(exprs.parse(x["text"]))):
            continue
        if v not in ("ok", "n/a"):
            vio.append(violation(x, v, "native-trace", prop))
    # an IR node the machine does not know makes a kernel unjudgeable there (its native runs are still judged): say so
    unsupported = [x for x in recs if x.get("status") == "unsupported-node"]
    if unsupported:
        kernels_ = sorted({(x["text"], str(x["formats"])) for x in unsupported})
        print(f"NOTE property={prop} spec/IRMachine.tla cannot execute {len(kernels_)} kernel(s) (unsupported IR node): they are judged "
              f"by their native runs only. First: {kernels_[0][0]} {kernels_[0][1]}")
    return {"r": r, "recs": recs, "traces": traces, "violations": vio, "inconclusive": inconclusive,
            "coverage": coverage(r, recs, traces, rule, {"inconclusive": inconclusive, "unsupported_node_behaviours": len(unsupported)}),
            "assumptions": ASSUMPTIONS}


def replay(data: dict) -> dict:
    """Re-run exactly one recorded behaviour on the machine and (if safe) in both real back ends."""
    from .. import kernels
    from ..common import dump
    from ..native import Pool
    from ..tlc import run_tlc, workdir

    c = data["case"]
    programs: list = []
    k = kernels.compile_kernel(c["text"], c["formats"], ["evaluate"], programs, cap=c["cap"])
    if k.error:
        print(f"replay: generation now fails with {k.error}")
        return {"violations": [], "coverage": {}}
    content = {nm: [[p[0], p[1]] for p in seq] for nm, seq in (c.get("content") or {}).items()}
    case = kernels.base_case(k, 1, [c["dims"]], [content], kernels.single_script(k.progs["evaluate"]), "single")
    d = workdir("replay")
    dump(programs, d / "progs.json")
    dump([case], d / "cases.json")
    r = run_tlc("KernelRun", "KernelRun.cfg", env={"VF_PROGS": d / "progs.json", "VF_CASES": d / "cases.json"}, workers=1)
    line = r.lines[0]
    print("machine verdict:", line["v"], "status:", line["status"], "steps:", line["steps"])
    print("machine output :", line["out"])
    vio = []
    field = {"C01": "c01", "C02": "c02", "C03": "c03", "C05": "c05"}.get(data["property"])
    if field and line["v"].get(field) not in ("ok", "n/a"):
        vio.append(violation({**c, "v": line["v"]}, line["v"][field], "machine", data["property"]))
    if line["v"]["c05"] == "ok" and not exprs.broadcast_target(k.asg):
        fu = exprs.first_use(k.asg)
        tensors = {nm: pipeline._spec_tensor(k.formats[nm], [c["dims"][i] for i in fu[nm]], line["packed"][nm]) for nm in fu}
        tasks = [{"id": b, "op": "eval_batch", "text": k.text, "formats": k.formats, "cap": c["cap"], "backend": b,
                  "inputs": [{"cid": 1, "tensors": tensors}]} for b in ("llvm", "cffi")]
        for b, res in Pool(2).run(tasks).items():
            print(f"native {b}:", res.get("outs", res))
    import shutil

    shutil.rmtree(d, ignore_errors=True)
    return {"violations": vio, "coverage": {}}


def sparse_output(rec: dict) -> bool:
    target = exprs.parse(rec["text"])["target"]
    return "s" in rec["formats"][target]
