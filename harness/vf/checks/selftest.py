"""./check selftest - demonstrates that the specifications are bound to what they judge (not a MANIFEST check).

Each probe corrupts ONE recorded field or removes ONE event of an otherwise accepted implementation trace and requires
the TLA+ judge to reject it with the right clause; the uncorrupted trace must be accepted.
"""
from __future__ import annotations

import copy
import json

from .. import exprs, kernels, pipeline
from ..common import dump, dyadic
from ..native import Pool
from ..tlc import run_tlc, workdir


def judge_observe(cases, d):
    dump([], d / "noprogs.json")
    dump(cases, d / "obs.json")
    r = run_tlc("KernelRun", "KernelRun.cfg", env={"VF_PROGS": d / "noprogs.json", "VF_CASES": d / "obs.json"})
    return {l["case"]: l["v"] for l in r.lines}


def probe_kernel_trace(d):
    """A real LLVM result validated by KernelRun(observe); then one value / one crd entry / one pos entry corrupted."""
    text, fm = "y(i) = A(i,j) * x(j)", {"y": "s0", "A": "d0s1", "x": "d0"}
    k = kernels.compile_kernel(text, fm, ["evaluate"], [], cap=2)
    dims = {"i": 3, "j": 3}
    content = {"A": [[[0, 1], dyadic(2)], [[2, 0], dyadic(3)], [[2, 2], dyadic(1)]], "x": [[[0], dyadic(1)], [[1], dyadic(2)], [[2], dyadic(4)]]}
    fu = exprs.first_use(k.asg)
    tensors = {nm: {"fmt": kernels.fmt_record(fm[nm]), "dims": [dims[i] for i in fu[nm]],
                    **pipeline._py_pack(content[nm], kernels.fmt_record(fm[nm]), [dims[i] for i in fu[nm]])} for nm in fu}
    res = Pool(1).run([{"id": "0", "op": "eval_batch", "text": text, "formats": fm, "cap": 2, "backend": "llvm",
                        "inputs": [{"cid": 1, "tensors": tensors}]}])["0"]
    out = res["outs"][0]["out"]
    good = {"levels": out["levels"], "vals": [dyadic(v) for v in out["vals"]]}
    variants = {"recorded": good}
    v = copy.deepcopy(good); v["vals"][0] = dyadic(out["vals"][0] + 1); variants["value+1"] = v
    v = copy.deepcopy(good); v["levels"][0][1][0] = 1; variants["crd-changed"] = v          # stores coordinate 1 (empty row): phantom
    v = copy.deepcopy(good); v["levels"][0][1] = list(reversed(v["levels"][0][1])); variants["crd-reversed"] = v
    cases, names = [], []
    for name, obs in variants.items():
        c = kernels.base_case(k, len(cases) + 1, [dims], [content], [{"op": "load", "val": 1, "dims": 1}, {"op": "observe", "k": 1}],
                              "single", emit=False)
        c["obs"] = [obs]
        cases.append(c)
        names.append(name)
    verdicts = judge_observe(cases, d)
    got = {names[i - 1]: v for i, v in verdicts.items()}
    ok = (all(x == "ok" for x in got["recorded"].values()) and got["value+1"]["c01"] == "wrong-value"
          and got["crd-changed"]["c03"] == "phantom" and got["crd-reversed"]["c02"] != "ok")
    return ok, got


def probe_cache_trace(d):
    """CacheDeterminism: the accepted trace of a tiny run; one digest flipped; a hit that returns a kernel never handed out."""
    base = [{"ev": "Meta", "proc": "p", "maxsize": 2},
            {"ev": "Generated", "proc": "p0", "req": 1, "sha": "aa"}, {"ev": "Generated", "proc": "p1", "req": 1, "sha": "aa"},
            {"ev": "Cli", "proc": "p1", "req": 1, "stdout": "aa", "file": "aa"},
            {"ev": "Lookup", "proc": "c", "key": "k1", "kernel": 11, "hit": False},
            {"ev": "Lookup", "proc": "c", "key": "k1", "kernel": 11, "hit": True},
            {"ev": "Lookup", "proc": "c", "key": "k2", "kernel": 12, "hit": False},
            {"ev": "Lookup", "proc": "c", "key": "k3", "kernel": 13, "hit": False},     # evicts k1 (capacity 2)
            {"ev": "Lookup", "proc": "c", "key": "k1", "kernel": 14, "hit": False},
            {"ev": "Result", "proc": "c", "req": "R", "input": "x", "sha": "r1"}, {"ev": "Result", "proc": "c", "req": "R", "input": "x", "sha": "r1"}]
    variants = {"recorded": base}
    v = copy.deepcopy(base); v[2]["sha"] = "bb"; variants["digest-differs-across-processes"] = v
    v = copy.deepcopy(base); v[3]["file"] = "cc"; variants["-o-differs-from-stdout"] = v
    v = copy.deepcopy(base); v[8]["hit"] = True; variants["hit-returns-unseen-kernel"] = v
    v = copy.deepcopy(base); v[6]["kernel"] = 11; variants["kernel-shared-between-problems"] = v
    v = copy.deepcopy(base); v[10]["sha"] = "r2"; variants["result-depends-on-cache"] = v
    got = {}
    cfg = d / "Trace.cfg"
    cfg.write_text("SPECIFICATION Spec\nPOSTCONDITION TraceAccepted\nCHECK_DEADLOCK FALSE\n")
    for name, tr in variants.items():
        dump(tr, d / "trace.json")
        r = run_tlc("CacheDeterminism", str(cfg), env={"VF_TRACE": d / "trace.json"}, workers=1, allow_fail=True)
        got[name] = r.lines[-1] if r.lines else {}
    ok = got["recorded"].get("accepted") is True and all(not got[n].get("accepted", True) for n in variants if n != "recorded")
    return ok, {n: (g.get("accepted"), g.get("stuck_at")) for n, g in got.items()}


def probe_concurrency_trace(d):
    """Concurrency (Tracing): an accepted two-thread trace; a removed hook event; a kernel of another problem entered;
    two threads inside the compile critical section."""
    from .c14 import mc_module
    from ..common import SPEC

    reqs = {"r4": {"backend": "cffi"}, "r5": {"backend": "cffi"}}
    keys = {"r4": "k4", "r5": "k5"}
    threads = [(1, "r4"), (2, "r5")]

    def thread(t, kid, sid):
        return [{"ev": "lookup", "t": t}, {"ev": "compile", "t": t}, {"ev": "lock", "t": t}, {"ev": "unlock", "t": t},
                {"ev": "jit", "t": t, "kid": kid}, {"ev": "insert", "t": t}, {"ev": "alloc", "t": t, "sid": sid},
                {"ev": "enter", "t": t, "kid": kid, "sid": sid}, {"ev": "exit", "t": t}, {"ev": "own", "t": t, "sid": sid},
                {"ev": "ret", "t": t, "same": True}]

    base = thread(1, 101, 201) + thread(2, 102, 202)
    variants = {"recorded": base}
    variants["hook-removed(alloc)"] = [e for e in base if not (e["ev"] == "alloc" and e["t"] == 1)]
    v = copy.deepcopy(base); [e for e in v if e["ev"] == "enter" and e["t"] == 2][0]["kid"] = 101; variants["kernel-of-other-problem"] = v
    v = copy.deepcopy(base); [e for e in v if e["ev"] == "ret" and e["t"] == 2][0]["same"] = False; variants["result-differs"] = v
    a, b = thread(1, 101, 201), thread(2, 102, 202)
    variants["two-threads-in-compile"] = a[:3] + b[:3] + a[3:] + b[3:]
    v = copy.deepcopy(base); [e for e in v if e["ev"] == "own" and e["t"] == 2][0]["sid"] = 201; variants["owns-other-struct"] = v
    got = {}
    tag = "selftest"
    try:
        mod, cfgc = mc_module(tag, threads, reqs, keys, [], True)
        cfg = d / "c.cfg"
        cfg.write_text("SPECIFICATION Spec\n" + cfgc + "INVARIANT KernelMatches\nINVARIANT LockMutex\nINVARIANT NoSharedStruct\n"
                       "POSTCONDITION TraceAccepted\nCHECK_DEADLOCK FALSE\n")
        for name, tr in variants.items():
            dump(tr, d / "ctrace.json")
            r = run_tlc(mod, str(cfg), env={"VF_TRACE": d / "ctrace.json"}, workers=1, allow_fail=True)
            got[name] = "violates " + ",".join(r.violated) if r.violated else (r.lines[-1] if r.lines else {})
    finally:
        for f in SPEC.glob(f"MC_Conc_{tag}*.tla"):
            f.unlink()
    def rejected(g):
        return isinstance(g, str) or not g.get("accepted", True)
    ok = isinstance(got["recorded"], dict) and got["recorded"].get("accepted") is True and all(rejected(got[n]) for n in variants if n != "recorded")
    return ok, {n: (g if isinstance(g, str) else (g.get("accepted"), g.get("stuck_at"))) for n, g in got.items()}


def run(tier, seed):
    d = workdir("selftest")
    results = {}
    for name, probe in (("kernel-trace (KernelRun observe)", probe_kernel_trace), ("cache-trace (CacheDeterminism)", probe_cache_trace),
                        ("concurrency-trace (Concurrency, Tracing)", probe_concurrency_trace)):
        ok, detail = probe(d)
        results[name] = {"ok": ok, "detail": detail}
        print(("PASS " if ok else "FAIL ") + name + ": " + json.dumps(detail, default=str)[:600])
    import shutil

    shutil.rmtree(d, ignore_errors=True)
    bad = [n for n, r in results.items() if not r["ok"]]
    vio = [{"what": f"self-test probe failed: {n}", "key": {"clause": "selftest"}, "check": "selftest", "case": results[n]} for n in bad]
    cov = {"states": 1, "transitions": 1, "traces_validated_against_impl": 0, "evaluations": len(results), "distinct_nontrivial": len(results),
           "rule": "binding self-test", "samples": [results]}
    return {"violations": vio, "coverage": cov, "assumptions": []}


def replay(data):
    return {"violations": [], "coverage": {}}
