"""C09: construction and read-back are lossless for every format.

spec/TensorApi.tla enumerates the requests (format x dimensions x entry lists incl. unsorted / duplicated /
out-of-range / explicit zeros x conversion target) and states the expected raw arrays (Storage!Pack), items, dok and
conversion result; every request is replayed into the real constructors and accessors and compared field by field.
"""
from __future__ import annotations

import pickle

from ..common import undyadic, use_repo
from ..tlc import MachineryError, run_tlc, workdir

use_repo()

PARAMS = {
    "quick": [dict(orders="{0, 1, 2}", maxdim=2, alltargets="FALSE"),
              dict(orders="{3}", maxdim=2, alltargets="TRUE", simulate=500),
              dict(orders="{1, 2}", maxdim=12, alltargets="FALSE", simulate=40, maxentries=4)],
    "thorough": [dict(orders="{0, 1, 2}", maxdim=3, alltargets="TRUE"), dict(orders="{3}", maxdim=2, alltargets="FALSE"),
                 dict(orders="{4}", maxdim=2, alltargets="TRUE", simulate=3000),
                 dict(orders="{1, 2, 3}", maxdim=12, alltargets="FALSE", simulate=400, maxentries=5)],
}


def fmt_str(f) -> str:
    return "".join(m + str(o) for m, o in zip(f["modes"], f["ordering"]))


def fl(d):
    return undyadic(d)


def levels(lv):
    return [[list(x) for x in l] for l in lv]


class Mismatch(Exception):
    pass


def expect(cond, what):
    if not cond:
        raise Mismatch(what)


def check_tensor(t, line, fmt, packed, items, dok, what):
    from tensora.format import Mode

    n = line["order"]
    dims = tuple(line["dims"])
    expect(t.order == n, f"{what}: order {t.order}")
    expect(tuple(t.dimensions) == dims, f"{what}: dimensions {t.dimensions}")
    expect([m.character for m in t.format.modes] == list(fmt["modes"]) and list(t.format.ordering) == list(fmt["ordering"]),
           f"{what}: format {t.format}")
    expect(t.taco_indices == levels(packed["levels"]), f"{what}: taco_indices {t.taco_indices} != {levels(packed['levels'])}")
    expect(t.taco_vals == [fl(v) for v in packed["vals"]], f"{what}: taco_vals {t.taco_vals}")
    got_items = sorted((tuple(c), v) for c, v in t.items())
    want_items = sorted((tuple(c), fl(v)) for c, v in items)
    expect(got_items == want_items, f"{what}: items {got_items} != {want_items}")
    want_dok = {tuple(c): fl(v) for c, v in dok}
    expect(t.to_dok() == want_dok, f"{what}: to_dok {t.to_dok()} != {want_dok}")
    expect(t.to_dok(explicit_zeros=True) == dict(want_items), f"{what}: to_dok(explicit_zeros) {t.to_dok(explicit_zeros=True)}")
    # what an accessor returned belongs to the caller: editing it must not change what the tensor says afterwards
    for getter in (lambda: t.to_dok(explicit_zeros=True), lambda: t.to_dok(), lambda: t.taco_vals, lambda: t.taco_indices):
        got = getter()
        if isinstance(got, dict):
            got.clear()
            got[tuple(9 for _ in dims)] = 99.0
        else:
            def scramble(x):
                for i_, y in enumerate(x):
                    if isinstance(y, list):
                        scramble(y)
                    else:
                        x[i_] = 77
                x.append(78)
            scramble(got)
    expect(t.to_dok() == want_dok and t.to_dok(explicit_zeros=True) == dict(want_items),
           f"{what}: to_dok changed after a previously returned result was edited: {t.to_dok(explicit_zeros=True)}")
    expect(t.taco_indices == levels(packed["levels"]) and t.taco_vals == [fl(v) for v in packed["vals"]],
           f"{what}: taco_indices/taco_vals changed after a previously returned result was edited")
    expect(sorted((tuple(c), v) for c, v in t.items()) == want_items, f"{what}: items changed after a previously returned result was edited")
    # comparison, printing and scalar conversion go through the same read-back
    from tensora import Tensor

    r = eval(repr(t), {"Tensor": Tensor})   # noqa: S307 - repr is documented to be evaluable
    expect(r.format == t.format and tuple(r.dimensions) == dims and r.to_dok() == want_dok, f"{what}: repr {repr(t)} does not evaluate to the same tensor")
    expect((r == t) is True and (t == t) is True, f"{what}: == of equal tensors is not True")
    other = dict(want_dok)
    if all(d > 0 for d in dims):
        c0 = tuple(0 for _ in dims)
        other[c0] = other.get(c0, 0.0) + 1.0
        expect((t == Tensor.from_dok(other, dimensions=dims, format=t.format)) is False, f"{what}: == of different tensors is not False")
    if n == 0:
        expect(float(t) == want_dok.get((), 0.0), f"{what}: float {float(t)}")


def replay_line(line) -> list[tuple[str, str]]:
    """Returns [(clause, detail)] for every expectation the real code does not meet."""
    from tensora import Tensor

    bad = []
    n = line["order"]
    dims = tuple(line["dims"])
    f1 = fmt_str(line["fmt"])
    coords = [tuple(c) for c, _ in line["data"]]
    values = [fl(v) for _, v in line["data"]]
    if line["reject"]:
        for name, build in (("from_aos", lambda: Tensor.from_aos(coords, values, dimensions=dims, format=f1)),
                            ("from_soa", lambda: Tensor.from_soa(tuple(zip(*coords)), values, dimensions=dims, format=f1))):
            try:
                t = build()
            except Exception:  # noqa: BLE001 - any refusal is a rejection
                continue
            kept = t.to_dok()
            bad.append(("out-of-range-not-rejected",
                        f"{name}({coords}, dimensions={dims}, format={f1!r}) returned a tensor with entries {kept}"))
        return bad
    builders = [("from_aos", lambda: Tensor.from_aos(coords, values, dimensions=dims, format=f1))]
    if n > 0:
        soa = tuple(zip(*coords)) if coords else tuple([] for _ in range(n))
        builders.append(("from_soa", lambda: Tensor.from_soa(soa, values, dimensions=dims, format=f1)))
    if len(set(coords)) == len(coords):
        builders.append(("from_dok", lambda: Tensor.from_dok(dict(zip(coords, values)), dimensions=dims, format=f1)))
    no_zero = all(v["n"] != 0 for _, v in line["items"] if tuple(_) in set(coords)) and len(line["dok"]) == len(set(coords))
    if no_zero and all(d > 0 for d in dims):
        content = {tuple(c): fl(v) for c, v in line["dok"]}

        def lol(prefix, depth):
            if depth == n:
                return content.get(prefix, 0.0)
            return [lol(prefix + (i,), depth + 1) for i in range(dims[depth])]

        builders.append(("from_lol", lambda: Tensor.from_lol(lol((), 0), dimensions=dims, format=f1)))
    # defaulted arguments: no format (default_format_given_nnz / dense for from_lol) and no dimensions (inferred from the
    # largest coordinate / the nesting): which format or size is chosen is not prescribed, the content must survive,
    # and converting to the conversion target must give the specified arrays
    want_dok_ = {tuple(c): fl(v) for c, v in line["dok"]}
    loose = [("from_aos(format=None)", lambda: Tensor.from_aos(coords, values, dimensions=dims), True)]
    if n > 0:
        soa_ = tuple(zip(*coords)) if coords else tuple([] for _ in range(n))
        loose.append(("from_soa(format=None)", lambda: Tensor.from_soa(soa_, values, dimensions=dims), True))
    if coords and len(set(coords)) == len(coords):
        loose.append(("from_dok(dimensions=None)", lambda: Tensor.from_dok(dict(zip(coords, values)), format=f1), False))
        loose.append(("from_dok(dimensions=None, format=None)", lambda: Tensor.from_dok(dict(zip(coords, values))), False))
    if no_zero and all(d > 0 for d in dims):
        loose.append(("from_lol(dimensions=None, format=None)", lambda: Tensor.from_lol(lol((), 0)), True))
    for name, build, dims_given in loose:
        try:
            t = build()
            expect(t.order == n, f"{name}: order {t.order}")
            expect(t.to_dok() == want_dok_, f"{name}: to_dok {t.to_dok()} != {want_dok_}")
            if dims_given:
                expect(tuple(t.dimensions) == dims, f"{name}: dimensions {t.dimensions}")
                # (to_format goes through to_dok, so explicit zeros are gone: the expectation is Pack of the dok)
                check_tensor(t.to_format(fmt_str(line["fmt2"])), line, line["fmt2"], line["conv"], line["convitems"], line["dok"], name + ".to_format")
            else:
                inferred = tuple(max(c[i] for c in coords) + 1 for i in range(n))
                expect(tuple(t.dimensions) == inferred, f"{name}: dimensions {t.dimensions} (largest coordinate + 1 = {inferred})")
            t3 = pickle.loads(pickle.dumps(t))
            expect(t3.to_dok() == want_dok_ and t3.format == t.format and t3.dimensions == t.dimensions, f"{name}.pickle: content/format/dimensions changed")
            expect(t3 == t, f"{name}.pickle: == is False")
        except Mismatch as e:
            bad.append((str(e).split(":")[1].strip().split(" ")[0], str(e)))
        except Exception as e:  # noqa: BLE001
            bad.append(("raised-" + type(e).__name__, f"{name}: {type(e).__name__}: {e}"))
    for name, build in builders:
        try:
            t = build()
            check_tensor(t, line, line["fmt"], line["packed"], line["items"], line["dok"], name)
            t2 = t.to_format(fmt_str(line["fmt2"]))
            check_tensor(t2, line, line["fmt2"], line["conv"], line["convitems"], line["dok"], name + ".to_format")
            t3 = pickle.loads(pickle.dumps(t))
            check_tensor(t3, line, line["fmt"], line["packed"], line["items"], line["dok"], name + ".pickle")
            # read-back through an iterator taken from a TEMPORARY tensor (nothing else references it), consumed after
            # other tensors of the same size were built: the entries must still be the ones supplied
            want_items_ = sorted((tuple(c), fl(v)) for c, v in line["items"])
            for tag, mk in (("", build), (".to_format", lambda: build().to_format(f1)), (".pickle", lambda: pickle.loads(pickle.dumps(t)))):
                it = mk().items()
                junk = [Tensor.from_aos(coords, [v + 1000.0 for v in values], dimensions=dims, format=f1) for _ in range(3)]
                got_ = sorted((tuple(c), v) for c, v in it)
                del junk
                nz_ = sorted((c, v) for c, v in got_ if v != 0)
                want_nz_ = sorted((tuple(c), fl(v)) for c, v in line["dok"])
                expect(nz_ == want_nz_, f"{name}{tag}.items-of-temporary: non-zero items {nz_} != {want_nz_}")
                if tag != ".to_format":   # (to_format goes through to_dok: explicit zeros are gone, dense fill differs)
                    expect(got_ == want_items_, f"{name}{tag}.items-of-temporary: items {got_} != {want_items_}")
        except Mismatch as e:
            bad.append((str(e).split(":")[1].strip().split(" ")[0], str(e)))
        except Exception as e:  # noqa: BLE001
            bad.append(("raised-" + type(e).__name__, f"{name}: {type(e).__name__}: {e}"))
    return bad


def _journal_worker(lines, idxs, conn):
    for i in idxs:
        conn.send(("start", i, None))
        try:
            r = replay_line(lines[i])
        except BaseException as e:  # noqa: BLE001
            r = [("raised-" + type(e).__name__, f"replay raised {type(e).__name__}: {e}")]
        conn.send(("done", i, r))
    conn.send(("end", -1, None))
    conn.close()


MAX_CULPRITS = 25


def replay_all(lines: list) -> list:
    """replay_line for every line in sacrificial processes that journal their progress: a worker that dies (segfault
    on freed or out-of-range memory) or hangs is attributed to the request in flight, which is reported, and the rest
    of its share continues in a fresh worker.  After MAX_CULPRITS such requests the remaining ones are left unreplayed."""
    import multiprocessing
    import threading

    ctx = multiprocessing.get_context("fork")
    results: list = [None] * len(lines)
    culprits = []
    lock = threading.Lock()
    NW = 16

    def serve(share):
        todo = list(share)
        while todo:
            with lock:
                if len(culprits) >= MAX_CULPRITS:
                    return
            parent, child = ctx.Pipe(duplex=False)
            pr = ctx.Process(target=_journal_worker, args=(lines, todo, child), daemon=True)
            pr.start()
            child.close()
            current, finished = None, False
            try:
                while True:
                    if not parent.poll(180):
                        break  # hung
                    try:
                        kind, i, r = parent.recv()
                    except (EOFError, OSError):
                        break  # died
                    if kind == "start":
                        current = i
                    elif kind == "done":
                        results[i] = r
                        current = None
                    else:
                        finished = True
                        break
            finally:
                try:
                    pr.kill()
                except Exception:  # noqa: BLE001
                    pass
                pr.join(5)
                parent.close()
            if finished:
                return
            if current is not None:
                results[current] = [("process-died-or-hung", "the replay of this request crashed or hung its process")]
                with lock:
                    culprits.append(current)
            todo = [i for i in todo if results[i] is None]

    threads = [threading.Thread(target=serve, args=(list(range(w, len(lines), NW)),)) for w in range(NW)]
    for t in threads:
        t.start()
    for t in threads:
        t.join()
    return [r if r is not None else [] for r in results]


def run(tier, seed):
    vio, states, trans, n_lines, n_replayed, samples, nontrivial = [], 0, 0, 0, 0, [], 0
    exhaustive = True
    for P in PARAMS[tier]:
        d = workdir("c09")
        cfg = d / "TensorApi.cfg"
        cfg.write_text(f"SPECIFICATION Spec\nCONSTANTS\n  MaxOrder = 4\n  MaxDim = {P['maxdim']}\n  Orders = {P['orders']}\n"
                       f"  AllTargets = {P['alltargets']}\n  MaxEntries = {P.get('maxentries', 99)}\nINVARIANT Emit\nINVARIANT Consistent\nCHECK_DEADLOCK FALSE\n")
        if P.get("simulate"):
            exhaustive = False
            r = run_tlc("TensorApi", str(cfg), timeout=3000, simulate=f"num={P['simulate']}", depth=10, seed=seed + 1, workers=1)
        else:
            r = run_tlc("TensorApi", str(cfg), timeout=3000)
        import shutil

        shutil.rmtree(d, ignore_errors=True)
        if r.violated:
            raise MachineryError(f"C09: the specification's own consistency invariant failed: {r.violated}")
        states += r.distinct
        trans += r.generated
        n_lines += len(r.lines)
        seen_lines = set()
        uniq = []
        for line in r.lines:
            k = repr(line)
            if k not in seen_lines:
                seen_lines.add(k)
                uniq.append(line)
        results = replay_all(uniq)
        for line, res in zip(uniq, results):
            n_replayed += 1
            if not line["reject"] and len(line["dok"]) > 0:
                nontrivial += 1
            for clause, detail in res:
                key = {"clause": clause, "format": fmt_str(line["fmt"]), "order": line["order"],
                       "badmodes": ",".join(sorted(line.get("badmodes", [])))}
                vio.append({"what": detail[:400], "key": key, "check": "c09",
                            "case": {k: line[k] for k in ("order", "fmt", "dims", "data")}})
            if len(samples) < 4 and not line["reject"] and len(line["data"]) >= 2 and line["order"] >= 2:
                samples.append(line)
    if n_lines == 0:
        raise MachineryError("C09: no request generated")
    cov = {"states": states, "transitions": trans, "traces_validated_against_impl": n_replayed, "evaluations": n_replayed,
           "distinct_nontrivial": nontrivial,
           "rule": "TensorApi.tla: every format of the listed orders x every dimension vector over 0..MaxDim x every "
                   "coordinate subset x 5 entry-list shapes (sorted, reversed, duplicate, explicit zero, cancelling "
                   "duplicate) + out-of-range entries x conversion targets; each replayed through from_aos/from_soa/"
                   "from_dok/from_lol, taco_indices/vals, items, to_dok, to_format, pickle. Non-trivial = at least one "
                   "non-zero entry.",
           "samples": samples, "exhaustive": exhaustive, "bounds": PARAMS[tier]}
    from .. import structure_conf

    # default_format_given_nnz is compared with spec/Structure.tla; which format is chosen when none is given is not
    # part of the property (content must survive in ANY format - the requests above include format = None), so a
    # deviation is a NOTE
    sv, sr, sn = structure_conf.check_default(tier)
    structure_conf.note("C09", sv, "default_format_given_nnz")
    cov["default_format_deviations"] = len(sv)
    cov["states"] += sr.distinct
    cov["transitions"] += sr.generated
    cov["default_format_cases_compared"] = sn
    cov["traces_validated_against_impl"] += sn
    return {"violations": vio, "coverage": cov,
            "assumptions": ["values are small exact dyadics", "bounded orders/dimensions as listed in bounds"]}


def replay(data):
    from tensora import Tensor

    c = data["case"]
    line = dict(c)
    print("request:", c)
    coords = [tuple(x) for x, _ in c["data"]]
    values = [undyadic(v) for _, v in c["data"]]
    try:
        t = Tensor.from_aos(coords, values, dimensions=tuple(c["dims"]), format=fmt_str(c["fmt"]))
        print("from_aos ->", t, "indices", t.taco_indices, "vals", t.taco_vals, "items", list(t.items()))
    except Exception as e:  # noqa: BLE001
        print("from_aos raised", type(e).__name__, e)
    return {"violations": [], "coverage": {}}
