"""C05: memory safety, inputs untouched, termination - decided in every state of the IR abstract machine."""
from . import _pipe

RULE = ("evaluate kernels: every kernel of the pipeline x inputs incl. zero-sized dimensions and empty levels x initial capacities "
        "{1,2} (thorough {1,2,3,2^20}): every load/store/realloc checked against the heap model in every state "
        "(bounds, initialisation, liveness, ownership, int32 range, step budget); at the end: arrays handed back are "
        "live, long enough and initialised, nothing kernel-allocated is unreachable. Native crashes of the wide pass "
        "are taken back to the machine. Assemble and compute kernels: the faults of the C04 histories "
        "(assemble; freeze; compute; re-value; compute) on the same machine. Non-trivial/distinct as for C01.")


def run(tier, seed):
    out = _pipe.run_field("C05", "c05", tier, seed, RULE)
    r = out["r"]
    for wb in r.get("wide_bad", []):
        rec = {"text": wb["text"], "formats": wb["formats"], "cap": wb["cap"], "dims": (wb.get("input") or {}).get("dims"),
               "content": (wb.get("input") or {}).get("content"), "v": wb.get("machine"), "group": None}
        ms = wb.get("machine_status")
        if wb["what"] == "crashed":
            clause = f"native-crash(machine:{ms})"
        elif wb["what"].startswith("raised-RuntimeError"):
            clause = f"nonzero-return(machine:{ms})"
        else:
            continue  # other exception classes are judged by C06 / C10
        out["violations"].append(_pipe.violation(rec, clause, "native-wide", "C05"))
    for pb in r.get("probe_bad", []):
        out["violations"].append(_pipe.violation(pb, pb["what"], "overflow-probe", "C05"))
    out["coverage"]["overflow_probes"] = r.get("probes", 0)
    # the sub-graph lattice and its emission order (the mechanism of defect #2): the real generate_subgraphs is compared
    # with spec/Structure.tla inside the pipeline; a deviation is a NOTE, and the request exercising it was judged above
    # on every input pattern (group "structure-witness") - only what the machine finds there is a violation
    st = r.get("structure") or {}
    if st.get("subgraph_deviations"):
        print(f"NOTE property=C05 generate_subgraphs deviates from spec/Structure.tla in {st['subgraph_deviations']} of "
              f"{st['subgraph_lattices_compared']} lattices (not a violation by itself; {st['witness_kernels']} witness kernels "
              f"judged on the machine). First: {(st.get('first_deviations') or [''])[0]}")
    out["coverage"]["subgraph_lattices_compared"] = st.get("subgraph_lattices_compared", 0)
    out["coverage"]["subgraph_deviations"] = st.get("subgraph_deviations", 0)
    out["coverage"]["structure_witness_kernels"] = st.get("witness_kernels", 0)
    # the assemble and compute kernels: memory faults found by the C04 histories (same machine, structure frozen for
    # compute) are violations of this property too
    from . import c04

    h = c04.run(tier, seed)
    n_hist = 0
    for v in h["violations"]:
        clause = (v.get("key") or {}).get("clause", "")
        if clause.startswith("fault-") or clause.startswith("native-history-crashed"):
            vv = dict(v)
            vv["key"] = dict(v["key"], stage="history")
            vv["what"] = "[assemble/compute history] " + v["what"]
            vv["check"] = "C05"
            out["violations"].append(vv)
            n_hist += 1
    out["coverage"]["assemble_compute_histories"] = h["coverage"].get("evaluations", 0)
    out["coverage"]["assemble_compute_kernels"] = h["coverage"].get("kernels", 0)
    out["coverage"]["states"] += h["coverage"].get("states", 0)
    out["coverage"]["transitions"] += h["coverage"].get("transitions", 0)
    faults = {}
    for x in out["recs"]:
        faults[x["v"]["c05"]] = faults.get(x["v"]["c05"], 0) + 1
    out["coverage"]["machine_status_histogram"] = faults
    out["coverage"]["max_steps"] = max((x["steps"] for x in out["recs"]), default=0)
    out["coverage"]["loop_iterations"] = sum(x["iters"] for x in out["recs"])
    return out


def replay(data):
    return _pipe.replay(data)
