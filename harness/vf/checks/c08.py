"""C08: kernel generation is total - code, or one of the documented refusals.

spec/Problems.tla derives requests (target x right-hand side x every format x kinds x language x entry point x
identifier spelling) and states which outcome classes the property allows for each; every request is run through
generate_code, the CLI (typer CliRunner), tensor_method or evaluate in a sacrificial worker and the recorded event
{outcome class, exit code, stdout == library text, traceback?, tool-chain verdict, elapsed} must be accepted:
  outcome in allowed; CLI: exit 0 and the library's text, or exit 1 with a message and no traceback;
  Code => gcc -fsyntax-only (published header) / llvm parse+verify accept it; elapsed < limit.
"""
from __future__ import annotations

from ..native import Pool
from ..tlc import MachineryError, run_tlc, workdir

LIMIT_S = 20.0
PARAMS = {
    "quick": [
        dict(pool='{"b"}', idx='{"i", "j"}', order=2, leaves=1, lits="TRUE", entries='{"library"}', allkinds="FALSE",
             diag="TRUE", spells="{0}", simulate=None),
        dict(pool='{"b", "c"}', idx='{"i", "j", "k"}', order=3, leaves=3, lits="TRUE",
             entries='{"library", "cli", "method", "evaluate"}', allkinds="TRUE", diag="TRUE", spells="{0, 1}", simulate=120),
        dict(pool='{"b", "c"}', idx='{"i", "j", "k"}', order=3, leaves=2, lits="FALSE",
             entries='{"library", "cli"}', allkinds="FALSE", diag="FALSE", spells="{0}", simulate=250),
    ],
    "thorough": [
        dict(pool='{"b", "c"}', idx='{"i", "j"}', order=2, leaves=2, lits="FALSE", entries='{"library"}', allkinds="FALSE",
             diag="FALSE", spells="{0}", simulate=None),
        dict(pool='{"b", "c", "d"}', idx='{"i", "j", "k", "l"}', order=3, leaves=5, lits="TRUE",
             entries='{"library", "cli", "method", "evaluate"}', allkinds="TRUE", diag="TRUE", spells="{0, 1}", simulate=3000),
        dict(pool='{"b", "c"}', idx='{"i", "j", "k"}', order=3, leaves=3, lits="FALSE",
             entries='{"library", "cli"}', allkinds="FALSE", diag="FALSE", spells="{0}", simulate=6000),
    ],
}


def gen(P, seed):
    d = workdir("c08")
    cfg = d / "Problems.cfg"
    cfg.write_text("SPECIFICATION Spec\nCONSTANTS\n"
                   f"  TensorPool = {P['pool']}\n  IndexPool = {P['idx']}\n  MaxOrder = {P['order']}\n  MaxLeaves = {P['leaves']}\n"
                   f"  Literals = {P['lits']}\n  Entries = {P['entries']}\n  AllKinds = {P['allkinds']}\n"
                   f"  Diagonals = {P['diag']}\n  Spells = {P['spells']}\n"
                   "INVARIANT Emit\nCHECK_DEADLOCK FALSE\n")
    if P["simulate"]:
        r = run_tlc("Problems", str(cfg), simulate=f"num={P['simulate']}", depth=60, seed=seed + 8, workers=1, timeout=2400)
    else:
        r = run_tlc("Problems", str(cfg), timeout=2400)
    import shutil

    shutil.rmtree(d, ignore_errors=True)
    return r


def judge(l, o):
    """Returns [(clause, detail)]."""
    bad = []
    oc = o.get("outcome")
    if oc not in l["allowed"]:
        bad.append(("undocumented-outcome", f"{oc}: {o.get('msg', '')}"))
    if oc == "Code" and o.get("tool"):
        bad.append(("toolchain-rejects-code", f"{l['lang']}: {o['tool'][-300:]}"))
    if o.get("elapsed", 0) > LIMIT_S:
        bad.append(("too-slow", f"{o['elapsed']} s"))
    if l["entry"] == "cli" and "cli_exit" in o:
        if o.get("cli_exception"):
            bad.append(("cli-internal-exception", o["cli_exception"]))
        if o.get("cli_traceback"):
            bad.append(("cli-traceback", o.get("cli_message", "")))
        if oc == "Code":
            if o["cli_exit"] != 0:
                bad.append(("cli-exit-code", f"library returned code but CLI exit={o['cli_exit']}: {o.get('cli_message')}"))
            elif not o.get("cli_matches_library"):
                bad.append(("cli-text-differs-from-library", ""))
        elif oc in l["allowed"]:
            if o["cli_exit"] != 1:
                bad.append(("cli-exit-code", f"library refused with {oc} but CLI exit={o['cli_exit']}"))
            elif not o.get("cli_message"):
                bad.append(("cli-no-message", ""))
    return bad


def run(tier, seed):
    lines, states, trans = [], 0, 0
    exhaustive_part = 0
    for P in PARAMS[tier]:
        r = gen(P, seed)
        states += r.distinct
        trans += r.generated
        if not P["simulate"]:
            exhaustive_part += len(r.lines)
        lines += r.lines
    seen, uniq = set(), []
    for l in lines:
        k = (l["text"], str(l["formats"]), str(sorted(l["kinds"])), l["lang"], l["entry"])
        if k not in seen:
            seen.add(k)
            uniq.append(l)
    lines = uniq
    if not lines:
        raise MachineryError("C08: no request generated")
    # format sweeps: EVERY modes x ordering combination of both tensors for the order-3 copy and one order-3 transpose,
    # and of all three tensors for matrix multiplication (the quantifier "every format" taken literally for the shapes
    # where it is affordable); allowed outcomes by the same rule as Problems.tla (no diagonal, no broadcast target)
    import itertools

    from .. import kernels as _k

    sweeps = [("a(i,j,k) = b(i,j,k)", ["a", "b"]), ("a(i,j,k) = b(k,i,j)", ["a", "b"])]
    if tier == "thorough":
        sweeps += [("a(i,j,k) = b(j,k,i)", ["a", "b"]), ("a(i,j,k) = b(i,j,k) + c(i,j,k)", ["a", "b", "c"])]
    sweeps_small = [("a(i,k) = b(i,j) * c(j,k)", ["a", "b", "c"]), ("a(i,j) = b(i,j) + c(j,i)", ["a", "b", "c"]),
                    ("a(i) = b(i,j) * c(j)", ["a", "b", "c"])]
    n_sweep = 0
    # order 4: every format of the target against three formats of the operand (inner levels swapped)
    for ci, tf in enumerate(_k.all_formats(4)):
        for bf in ("s0s1s2s3", "d0d1d2d3", "s0d1d2s3"):
            lines.append({"text": "a(i,j,k,l) = b(i,k,j,l)", "formats": [["a", tf], ["b", bf]],
                          "kinds": [["evaluate"], ["compute"], ["assemble"]][ci % 3], "lang": "c" if ci % 2 else "llvm",
                          "entry": "library" if ci % 5 else "cli", "allowed": ["Code", "NoKernelFoundError"], "diagonal": False,
                          "broadcast": False, "leaves": 1, "sweep": True})
            n_sweep += 1
    for text, names in sweeps + sweeps_small:
        orders = {"a": text.split("=")[0].count(",") + 1}
        from .. import exprs as _e

        od = _e.tensor_orders(_e.parse(text))
        combos = itertools.product(*[_k.all_formats(od[n]) for n in names])
        if len(names) == 3 and od["a"] == 3:
            combos = itertools.islice(combos, 0, 20000, 7)
        for ci, combo in enumerate(combos):
            lines.append({"text": text, "formats": [[n, f] for n, f in zip(names, combo)],
                          "kinds": [["evaluate"], ["compute"], ["assemble"]][ci % 3], "lang": "c" if ci % 4 else "llvm",
                          # every seventh request of a sweep goes through the CLI: the sweeps are where the documented
                          # refusals occur, and the CLI must turn them into exit 1 + message
                          "entry": "cli" if ci % 7 == 3 else "library", "allowed": ["Code", "NoKernelFoundError"], "diagonal": False,
                          "broadcast": False, "leaves": 1, "sweep": True})
            n_sweep += 1
    # diagonal accesses through every entry point (a documented refusal; code is allowed too)
    for text, fms in (("a(i) = b(i,i)", [("a", "d0"), ("b", "d0d1")]), ("a(i) = b(i,i)", [("a", "s0"), ("b", "s0s1")]),
                      ("a() = b(i,i) * c(i)", [("a", ""), ("b", "d0s1"), ("c", "d0")]), ("a(i,i) = b(i)", [("a", "d0d1"), ("b", "d0")])):
        for entry in ("library", "cli", "method"):
            for lang in ("c", "llvm"):
                lines.append({"text": text, "formats": [list(x) for x in fms], "kinds": ["evaluate"], "lang": lang, "entry": entry,
                              "allowed": ["Code", "NoKernelFoundError", "DiagonalAccessError"], "diagonal": True, "broadcast": False,
                              "leaves": 1, "sweep": True})
                n_sweep += 1
    # the catalogue (every mechanism of the generator, several spellings) in both languages: all-dense, all-compressed
    # and two seeded format assignments each; the kinds rotate
    import random as _random

    from ..catalogue import CATALOGUE
    from ..pipeline import format_choices

    rng = _random.Random(8 * seed + 8)
    n_cat = 0
    for gi, (group, text) in enumerate(CATALOGUE):
        asg = _e.parse(text)
        diag, bcast = _e.has_diagonal(asg), _e.broadcast_target(asg)
        for fi, fm in enumerate(format_choices(asg, rng, 4, 12)):
            if fi >= 4:
                break
            for lang in ("c", "llvm"):
                # the all-dense and all-compressed assignments (fi 0, 1) get all three kinds in one module
                kinds = ["evaluate", "assemble", "compute"] if fi < 2 else [["evaluate"], ["compute"], ["assemble"]][(gi + fi) % 3]
                lines.append({"text": text, "formats": [[n, f] for n, f in fm.items()], "kinds": kinds, "lang": lang,
                              "entry": "library" if (gi + fi) % 3 else "cli",
                              "allowed": ["Code", "NoKernelFoundError"] + (["DiagonalAccessError"] if diag else []),
                              "diagonal": diag, "broadcast": bcast, "leaves": len(_e.leaves(asg["rhs"])), "sweep": True})
                n_cat += 1
    cases = []
    for i, l in enumerate(lines):
        cases.append({"cid": i, "text": l["text"], "formats": [list(x) for x in l["formats"]], "kinds": sorted(l["kinds"]),
                      "lang": l["lang"], "entry": l["entry"]})
    B = 40
    tasks = [{"id": str(b), "op": "generate_batch", "cases": cases[b:b + B], "timeout": 240 + 6 * B}
             for b in range(0, len(cases), B)]
    nat = Pool().run(tasks)
    vio, outcomes = [], {}
    hist = {}
    for tid, res in nat.items():
        if res.get("crashed"):
            i = res.get("progress")
            if i is not None:
                l = lines[i]
                vio.append({"what": f"generation crashed or hung the process: {l['entry']} {l['text']} {l['formats']} {l['kinds']} {l['lang']}",
                            "key": {"clause": "crash-or-hang", "entry": l["entry"], "text": l["text"]}, "check": "c08", "case": l})
            continue
        for o in res["outs"]:
            outcomes[o["cid"]] = o
    for i, l in enumerate(lines):
        o = outcomes.get(i)
        if o is None:
            continue
        hist[o.get("outcome")] = hist.get(o.get("outcome"), 0) + 1
        for clause, detail in judge(l, o):
            vio.append({"what": f"{clause}: {l['entry']} '{l['text']}' {dict(map(tuple, l['formats']))} kinds={sorted(l['kinds'])} "
                                f"lang={l['lang']}: {detail}"[:500],
                        "key": {"clause": clause, "entry": l["entry"], "outcome": o.get("outcome"), "text": l["text"],
                                "formats": ",".join(f"{n}:{f}" for n, f in l["formats"])},
                        "check": "c08", "case": {"line": l, "event": o}})
    cov = {"states": states, "transitions": trans, "traces_validated_against_impl": len(outcomes), "evaluations": len(lines),
           "distinct_nontrivial": sum(1 for i, l in enumerate(lines) if outcomes.get(i, {}).get("outcome") == "Code"),
           "rule": "Problems.tla requests: exhaustive for the small pool (1 tensor name, 2 indexes, order <= 2, 1 leaf + "
                   "literals; thorough: 2 leaves) x every format assignment, -simulate over the large pool (3 leaves, "
                   "order 3, reuse, diagonal, literals, all kind subsets, both languages, 4 entry points, 2 spellings); "
                   "non-trivial = code was generated (and accepted by its tool chain).",
           "samples": [{"request": l, "event": {k: v for k, v in outcomes.get(i, {}).items() if k != "code"}}
                       for i, l in enumerate(lines[:400:100])],
           "outcome_histogram": hist, "exhaustive_requests": exhaustive_part, "format_sweep_requests": n_sweep, "catalogue_requests": n_cat, "exhaustive": False, "limit_s": LIMIT_S}
    from .. import structure_conf

    # legal_iteration_orders is compared with spec/Structure.tla; a deviation is a NOTE, not a violation: offering fewer
    # orders only means more documented refusals, offering more is judged by what the requests above produce (the format
    # sweeps cover every format of orders <= 3 and every target format of order 4)
    sv, sr, sn = structure_conf.check_orders(tier)
    structure_conf.note("C08", sv, "legal_iteration_orders")
    cov["legal_iteration_orders_deviations"] = len(sv)
    cov["states"] += sr.distinct
    cov["transitions"] += sr.generated
    cov["legal_iteration_orders_formats_compared"] = sn
    cov["traces_validated_against_impl"] += sn
    return {"violations": vio, "coverage": cov,
            "assumptions": ["'never hangs' is a per-request limit on the CPU time of the generating process (20 s; a request normally takes well under 1 s), not a termination proof of the search",
                            "gcc -std=c11 -fsyntax-only with <stdint.h>, <stdlib.h> and the repository's published header"]}


def replay(data):
    c = data["case"]["line"]
    res = Pool(1).run([{"id": "0", "op": "generate_batch", "cases": [{"cid": 0, "text": c["text"], "formats": [list(x) for x in c["formats"]],
                                                                      "kinds": sorted(c["kinds"]), "lang": c["lang"], "entry": c["entry"]}]}])
    print(res)
    vio = []
    o = (res.get("0", {}).get("outs") or [{}])[0]
    for clause, detail in judge(c, o) if o else []:
        vio.append({"what": f"{clause}: {detail}", "key": data.get("key", {}), "check": "c08", "case": data["case"]})
    return {"violations": vio, "coverage": {}}
