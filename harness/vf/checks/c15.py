"""C15: generated code is a pure function of the request; caching is invisible.

Real processes (PYTHONHASHSEED 0, 1, 2, random) generate the same requests (drawn by spec/Problems.tla) in different
orders through the library and the CLI (stdout and -o), drive the kernel cache through hit / miss / clear / eviction
scenarios, and evaluate through a warm and a cleared cache.  All recorded events form one trace that must be a
behaviour of spec/CacheDeterminism.tla (trace validation, code -> spec).
"""
from __future__ import annotations

import json
import os
import random
import subprocess
import sys

from .. import exprs
from ..common import VERIF, dump
from ..tlc import MachineryError, run_tlc, workdir
from . import c08

PARAMS = {"quick": dict(sim=25, nreq=90, percat=3, seeds=["0", "1", "2", "3", "random"], evict=132),
          "thorough": dict(sim=200, nreq=700, percat=12, seeds=["0", "1", "2", "3", "4", "12345", "random", "random"], evict=140)}

CACHE_PROBLEMS = [
    ("y(i) = A(i,j) * x(j)", [("y", "d0"), ("A", "d0s1"), ("x", "d0")]),
    ("y(i) = A(i,j) * x(j)", [("y", "s0"), ("A", "d0s1"), ("x", "d0")]),
    ("a(i) = b(i) + c(i)", [("a", "s0"), ("b", "s0"), ("c", "s0")]),
    ("a(i,j) = b(i,j) * c(i,j)", [("a", "d0s1"), ("b", "d0s1"), ("c", "d0d1")]),
    ("a(i) = b(i) - c(i)", [("a", "d0"), ("b", "s0"), ("c", "d0")]),
    ("a(i,j) = b(i,j) + c(i,j)", [("a", "d0d1"), ("b", "d0s1"), ("c", "d1d0")]),
]


def key_of(text, formats, backend):
    """The problem a request denotes: blanks and the order in which the formats are listed do not matter."""
    return text.replace(" ", "") + "|" + ",".join(f"{n}:{f}" for n, f in sorted(map(tuple, formats))) + "|" + backend


def raw_key_of(text, formats, backend):
    """The cache entry a request lands in today (format order as listed): used by the descriptive LRU model only."""
    return text.replace(" ", "") + "|" + ",".join(f"{n}:{f}" for n, f in formats) + "|" + backend


def appearance_order(text, formats):
    order = list(exprs.tensor_orders(exprs.parse(text)))
    d = dict(formats)
    return [(n, d[n]) for n in order]


def run_process(job, hashseed, d, tag):
    path = d / f"job-{tag}.json"
    dump(job, path)
    env = dict(os.environ)
    env["PYTHONPATH"] = str(VERIF / "harness") + os.pathsep + env.get("PYTHONPATH", "")
    env["PYTHONHASHSEED"] = hashseed
    p = subprocess.run([sys.executable, "-m", "vf.c15_driver", str(path)], capture_output=True, text=True, env=env,
                       cwd=str(VERIF / "harness"), timeout=1500)
    events = [json.loads(l[2:]) for l in p.stdout.splitlines() if l.startswith("@@")]
    if p.returncode != 0 or not events:
        raise MachineryError(f"C15 driver process failed (seed {hashseed}): {p.stderr[-800:]}")
    return events


def run(tier, seed):
    P = PARAMS[tier]
    rng = random.Random(15 * seed + 15)
    gen_cfg = dict(pool='{"b", "c"}', idx='{"i", "j", "k"}', order=2, leaves=3, lits="TRUE", entries='{"library"}',
                   allkinds="TRUE", diag="FALSE", spells="{0, 1}", simulate=P["sim"])
    r = c08.gen(gen_cfg, seed)
    seen, reqs = set(), []
    for l in r.lines:
        k = (l["text"], str(l["formats"]), str(sorted(l["kinds"])), l["lang"])
        if k in seen:
            continue
        seen.add(k)
        reqs.append({"id": len(reqs) + 1, "text": l["text"], "formats": [list(x) for x in l["formats"]],
                     "kinds": sorted(l["kinds"]), "lang": l["lang"]})
    rng.shuffle(reqs)
    reqs = reqs[:P["nreq"]]
    # plus the catalogue's realistic shapes (co-iterated sums, products of sums, contractions ...) in all-dense,
    # all-compressed and seeded random formats
    from ..catalogue import CATALOGUE
    from ..pipeline import format_choices

    for ci, (group, text) in enumerate(CATALOGUE):
        asg = exprs.parse(text)
        for fi, fm in enumerate(format_choices(asg, rng, P["percat"], 40)):
            if fi >= P["percat"]:
                break
            reqs.append({"id": len(reqs) + 1000, "text": text, "formats": [[n, f] for n, f in fm.items()],
                         "kinds": [["evaluate"], ["compute"], ["assemble", "compute"]][(ci + fi) % 3],
                         "lang": "c" if (ci + fi) % 2 else "llvm"})
    all_kinds = ["assemble", "compute", "evaluate"]
    for i, rq in enumerate(reqs):
        rq["id"] = i + 1
        # the order in which the kernel kinds are requested is part of the request (kinds are a set: no repeats)
        ks = list(rq["kinds"])
        if i % 3 == 0:
            ks = rng.sample(all_kinds, rng.choice([2, 3]))
        elif i % 3 == 1:
            rng.shuffle(ks)
        rq["kinds"] = ks
    if len(reqs) < 20:
        raise MachineryError("C15: too few requests generated")
    d = workdir("c15")
    all_events = []
    # --- text purity across processes, orders, hash seeds, entry points
    import concurrent.futures as cf

    jobs = []
    for pi, hs in enumerate(P["seeds"]):
        order = list(reqs)
        random.Random(pi).shuffle(order)
        actions = []
        for j, rq in enumerate(order):
            actions.append({"act": "gen", "req": rq})
            if j % 4 == pi % 4:
                actions.append({"act": "cli", "req": rq, "omit_dense": j % 8 < 4})
            if j % 4 == (pi + 2) % 4:
                actions.append({"act": "gen", "req": rq, "omit_dense": True})
            # formats are a mapping: the order in which they are mentioned is not part of the request
            if j % 4 == (pi + 1) % 4:
                actions.append({"act": "gen", "req": rq, "reverse_formats": True})
            if j % 8 == (pi + 3) % 8:
                actions.append({"act": "cli", "req": rq, "omit_dense": False, "reverse_formats": True})
        jobs.append(({"proc": f"p{pi}", "actions": actions}, hs, f"text{pi}"))
    # --- cache scenarios (one process), incl. eviction
    cache_actions = []
    for text, fm in CACHE_PROBLEMS:
        canon = appearance_order(text, fm)
        pb = {"text": text, "formats": canon, "backend": "llvm", "key": key_of(text, canon, "llvm")}
        spaced = dict(pb, text=text.replace("=", "  =  ").replace("*", " * "))
        rev = list(reversed(canon))
        direct = {"text": text, "formats": rev, "backend": "llvm", "key": key_of(text, rev, "llvm")}
        cache_actions += [{"act": "lookup", "problem": pb}, {"act": "lookup", "problem": pb},
                          {"act": "lookup", "problem": spaced},
                          {"act": "lookup", "problem": direct, "direct": True},
                          {"act": "lookup", "problem": direct, "direct": True},
                          {"act": "lookup", "problem": pb}]
    cache_actions.append({"act": "clear"})
    t0, f0 = CACHE_PROBLEMS[0]
    c0 = appearance_order(t0, f0)
    cache_actions.append({"act": "lookup", "problem": {"text": t0, "formats": c0, "backend": "llvm", "key": key_of(t0, c0, "llvm")}})
    many = []
    for kq in range(1, P["evict"] + 1):
        text = f"a(i) = b(i) * {kq}"
        fm = [("a", "d0" if kq % 2 else "s0"), ("b", "s0")]
        many.append({"text": text, "formats": fm, "backend": "llvm", "key": key_of(text, fm, "llvm")})
    cache_actions += [{"act": "lookup", "problem": m} for m in many]
    cache_actions += [{"act": "lookup", "problem": many[-1]}, {"act": "lookup", "problem": many[0]},
                      {"act": "lookup", "problem": many[5]}, {"act": "lookup", "problem": many[-2]}]
    # --- results through a warm cache, a cleared cache, and (below) another process
    res_reqs = []
    for i, (text, fm) in enumerate(CACHE_PROBLEMS):
        asg = exprs.parse(text)
        dims = {ix: 3 for ix in exprs.index_classes(asg)}
        inputs = {}
        for name, idx in exprs.first_use(asg).items():
            cells = [c for c in __import__("itertools").product(*[range(dims[x]) for x in idx])]
            chosen = rng.sample(cells, max(1, len(cells) // 2))
            inputs[name] = [dict(fm)[name], [dims[x] for x in idx], [[list(c), float(rng.choice([1, 2, -1, 0.5]))] for c in sorted(chosen)]]
        res_reqs.append({"id": f"R{i}", "text": text, "output_format": dict(fm)[asg["target"]], "inputs": inputs, "input_id": "x0"})
    # the same assignment and output format evaluated again with the formats of two same-order inputs EXCHANGED and the
    # keyword arguments given in the opposite order: a different problem, which must get its own kernel
    swapped = []
    for rr in list(res_reqs):
        names = list(rr["inputs"])
        pair = next(((x, y) for x in names for y in names if x < y and len(rr["inputs"][x][1]) == len(rr["inputs"][y][1])
                     and rr["inputs"][x][0] != rr["inputs"][y][0]), None)
        if pair is None:
            continue
        x, y = pair
        ins = {n: list(v) for n, v in rr["inputs"].items()}
        ins[x][0], ins[y][0] = rr["inputs"][y][0], rr["inputs"][x][0]
        swapped.append({"id": rr["id"] + "s", "text": rr["text"], "output_format": rr["output_format"],
                        "inputs": {n: ins[n] for n in reversed(names)}, "input_id": "x0"})
    res_reqs += swapped
    for rr in res_reqs:
        cache_actions.append({"act": "result", "req": rr})
    for rr in res_reqs:
        cache_actions.append({"act": "result", "req": rr})
    cache_actions.append({"act": "clear"})
    for rr in res_reqs:
        cache_actions.append({"act": "result", "req": rr})
    jobs.append(({"proc": "cache", "actions": cache_actions}, "0", "cache"))
    jobs.append(({"proc": "cache2", "actions": [{"act": "result", "req": rr} for rr in reversed(res_reqs)]}, "2", "cache2"))
    for job, _, _ in jobs:
        for a_ in job["actions"]:
            if a_["act"] == "lookup":
                pb_ = a_["problem"]
                pb_["rawkey"] = raw_key_of(pb_["text"], pb_["formats"], pb_["backend"])
    with cf.ThreadPoolExecutor(max_workers=8) as ex:
        futs = [ex.submit(run_process, job, hs, d, tag) for job, hs, tag in jobs]
        per_proc = [f.result() for f in futs]
    metas = [evs[0] for evs in per_proc]
    if any(m["ev"] != "Meta" for m in metas):
        raise MachineryError("C15: a driver process did not start with its Meta event")
    failed_lookups = 0
    for evs in per_proc:
        for e in evs[1:]:
            if e["ev"] == "LookupFailed":
                failed_lookups += 1
            elif e["ev"] != "Meta":
                all_events.append(e)
    trace = [metas[-2]] + all_events   # Meta of the cache process carries maxsize
    dump(trace, d / "trace.json")
    cfg = d / "Trace.cfg"
    cfg.write_text("SPECIFICATION Spec\nPOSTCONDITION TraceAccepted\nCHECK_DEADLOCK FALSE\n")
    vio = []
    from ..tlc import TlcResult

    rt = run_tlc("CacheDeterminism", str(cfg), env={"VF_TRACE": d / "trace.json"}, workers=1, allow_fail=True)
    verdicts = rt.lines
    # descriptive model of the cache the code has today (exact LRU of the reported size): a NOTE when it does not fit,
    # never a violation - the property does not prescribe a cache policy
    lru = run_tlc("KernelCacheLRU", str(cfg), env={"VF_TRACE": d / "trace.json"}, workers=1, allow_fail=True)
    lru_ok = bool(lru.lines) and bool(lru.lines[-1].get("accepted"))
    if not lru_ok:
        lv = lru.lines[-1] if lru.lines else {}
        print(f"NOTE property=C15 the kernel cache no longer behaves as the LRU of spec/KernelCacheLRU.tla (first event that does "
              f"not fit: {lv.get('stuck_at')} {lv.get('event')}); not a violation: the property does not prescribe a cache policy")
    import shutil

    shutil.rmtree(d, ignore_errors=True)
    if not verdicts:
        raise MachineryError("C15: no acceptance verdict from the trace specification")
    v = verdicts[-1]
    if not v.get("accepted"):
        e = v["event"]
        why = e["ev"]
        if e["ev"] in ("Generated", "Cli"):
            earlier = [x for x in trace[1:v["stuck_at"] - 1] if x.get("req") == e.get("req") and x["ev"] in ("Generated", "Cli")]
            rq = next((q for q in reqs if q["id"] == e.get("req")), None)
            detail = f"request {rq} gave {e} after {earlier[:1]}"
            clause = "text-not-a-pure-function" if e["ev"] == "Generated" or e.get("file") == e.get("stdout") else "cli-file-differs-from-stdout"
            if e["ev"] == "Cli" and e.get("file") == e.get("stdout"):
                clause = "cli-differs-from-library"
        elif e["ev"] == "Lookup":
            detail = f"cache lookup {e}"
            clause = "cache-hit-miss-or-kernel-identity"
        else:
            detail = f"{e}"
            clause = "result-depends-on-cache"
        vio.append({"what": f"trace rejected at event {v['stuck_at']} ({why}): {detail}"[:600],
                    "key": {"clause": clause}, "check": "c15", "case": {"event": e, "stuck_at": v["stuck_at"]}})
    consumed = v.get("events", v.get("stuck_at", 1) - 1)
    cov = {"states": max(rt.distinct, consumed + 1), "transitions": max(rt.generated, consumed),
           "traces_validated_against_impl": 1, "evaluations": len(trace) - 1,
           "distinct_nontrivial": len({e["req"] for e in all_events if e["ev"] == "Generated" and not e["sha"].startswith(("ERR", "EXC", "REFUSED"))}),
           "rule": "requests drawn by Problems.tla (-simulate), generated in every process (hash seeds as listed) in a "
                   "different order, a quarter also through the CLI (stdout and -o, dense formats omitted half of the "
                   "time); cache scenarios hit/miss/spacing/format-order/clear/eviction beyond maxsize; results warm vs "
                   "cleared vs another process. Non-trivial = distinct requests for which code was generated.",
           "samples": [trace[0]] + trace[1:4] + [e for e in all_events if e["ev"] == "Lookup"][:3] + [e for e in all_events if e["ev"] == "Result"][:1],
           "events": len(trace) - 1, "events_consumed": consumed, "processes": len(jobs), "hash_seeds": P["seeds"],
           "requests": len(reqs), "failed_lookups": failed_lookups, "lru_model_conforms": lru_ok, "exhaustive": False}
    return {"violations": vio, "coverage": cov,
            "assumptions": ["kernel identity = a serial number attached to the TensorMethod object at first sight",
                            "hit = cache_info().hits increased during the lookup"]}


def replay(data):
    print(data["case"])
    return {"violations": [], "coverage": {}}
