"""C12: assignment and format text round-trips and means what arithmetic says.

spec/Grammar.tla generates (a) assignment syntax trees with their conventional text, the shape the parser must
recover and whether the assignment must be rejected; (b) every format string up to a bounded order with valid and
invalid orderings; (c) every string up to a bounded length over a 12-symbol alphabet.  Each is replayed into
parse_assignment / parse_format / parse_named_format and deparse.
"""
from __future__ import annotations

from ..common import use_repo
from ..tlc import MachineryError, run_tlc, workdir

use_repo()

PARAMS = {
    "quick": dict(exhaust_depth=1, sim_depth=3, sim=1500, fmt_order=4, strlen=4),
    "thorough": dict(exhaust_depth=1, sim_depth=4, sim=30000, fmt_order=5, strlen=5),
}
REJECTIONS = ("MutatingAssignmentError", "InconsistentDimensionsError", "NameConflictError")


def gen(root, *, depth=1, order=4, strlen=4, spaced="TRUE", simulate=None, seed=0):
    d = workdir("c12")
    cfg = d / "Grammar.cfg"
    cfg.write_text(f'SPECIFICATION Spec\nCONSTANTS\n  Root = "{root}"\n  ExprDepth = {depth}\n  MaxOrder = {order}\n'
                   f"  MaxLen = {strlen}\n  Spaced = {spaced}\nINVARIANT Emit\nCHECK_DEADLOCK FALSE\n")
    if simulate:
        r = run_tlc("Grammar", str(cfg), simulate=f"num={simulate}", depth=100, seed=seed + 12, workers=1, timeout=1800)
    else:
        r = run_tlc("Grammar", str(cfg), timeout=1800)
    import shutil

    shutil.rmtree(d, ignore_errors=True)
    return r


def shape_of(e):
    from tensora.expression import ast

    if isinstance(e, ast.Tensor):
        return {"k": "T", "name": e.name, "idx": list(e.indexes)}
    if isinstance(e, ast.Integer):
        return {"k": "L", "int": True, "value": e.value}
    if isinstance(e, ast.Float):
        return {"k": "L", "int": False, "value": e.value}
    op = {ast.Add: "+", ast.Subtract: "-", ast.Multiply: "*"}[type(e)]
    return {"k": op, "l": shape_of(e.left), "r": shape_of(e.right)}


def want_shape(s):
    if s["k"] == "L":
        t = s["text"]
        return {"k": "L", "int": t.isdigit(), "value": int(t) if t.isdigit() else float(t)}
    if s["k"] == "T":
        return {"k": "T", "name": s["name"], "idx": list(s["idx"])}
    return {"k": s["k"], "l": want_shape(s["l"]), "r": want_shape(s["r"])}


def check_assignment(line):
    from returns.result import Failure, Success

    from tensora.expression import parse_assignment

    text = line["text"]
    try:
        res = parse_assignment(text)
    except Exception as e:  # noqa: BLE001
        return [("parse-raised", f"parse_assignment({text!r}) raised {type(e).__name__}: {e}")]
    if line["rejected"]:
        if isinstance(res, Success):
            return [("invalid-assignment-accepted", f"{text!r} accepted although {line['why']}")]
        return []   # any typed failure is a rejection (which class is not prescribed by the property)
    if isinstance(res, Failure):
        return [("valid-assignment-rejected", f"{text!r}: {type(res.failure()).__name__}: {str(res.failure())[:120]}")]
    a = res.unwrap()
    bad = []
    got = {"target": shape_of(a.target), "rhs": shape_of(a.expression)}
    want = {"target": want_shape(line["shape"]["target"]), "rhs": want_shape(line["shape"]["rhs"])}
    if got != want:
        bad.append(("wrong-tree", f"{text!r} parsed as {a.deparse()!r}: {got['rhs']} != {want['rhs']}"))
    try:
        again = parse_assignment(a.deparse())
        if not isinstance(again, Success) or again.unwrap() != a:
            import math

            from tensora.expression import ast as east

            def nonfinite(e):
                if isinstance(e, east.Float):
                    return not math.isfinite(e.value)
                return any(nonfinite(c) for c in (getattr(e, "left", None), getattr(e, "right", None)) if c is not None)

            clause = "round-trip-nonfinite-literal" if nonfinite(a.expression) else "round-trip"
            bad.append((clause, f"{text!r} -> {a.deparse()!r} -> {str(again)[:80]}"))
    except Exception as e:  # noqa: BLE001
        bad.append(("round-trip-raised", f"{a.deparse()!r}: {type(e).__name__}"))
    return bad


def check_format(line):
    from returns.result import Failure, Success

    from tensora.format import parse_format, parse_named_format

    text = line["text"]
    bad = []
    try:
        res = parse_format(text)
        named = parse_named_format("T_1:" + text)
    except Exception as e:  # noqa: BLE001
        return [("parse-raised", f"parse_format({text!r}) raised {type(e).__name__}: {e}")]
    if line["valid"]:
        if isinstance(res, Failure):
            return [("valid-format-rejected", f"{text!r}: {res.failure()}")]
        f = res.unwrap()
        if [m.character for m in f.modes] != list(line["modes"]) or list(f.ordering) != list(line["ordering"]):
            bad.append(("wrong-format", f"{text!r} parsed as {f}"))
        again = parse_format(f.deparse())
        if not isinstance(again, Success) or again.unwrap() != f:
            bad.append(("round-trip", f"{text!r} -> {f.deparse()!r} -> {again}"))
        if not isinstance(named, Success) or named.unwrap() != ("T_1", f):
            bad.append(("named-format", f"T_1:{text} -> {named}"))
    else:
        if isinstance(res, Success):
            bad.append(("invalid-format-accepted", f"{text!r} -> {res.unwrap()}"))
        if isinstance(named, Success):
            bad.append(("invalid-format-accepted", f"T_1:{text} -> {named.unwrap()}"))
    return bad


def check_string(line):
    from tensora.expression import parse_assignment
    from tensora.format import parse_format, parse_named_format

    bad = []
    for fn in (parse_assignment, parse_format, parse_named_format):
        try:
            fn(line["text"])
        except Exception as e:  # noqa: BLE001
            bad.append(("parse-raised", f"{fn.__name__}({line['text']!r}) raised {type(e).__name__}: {e}"))
    return bad


def run(tier, seed):
    P = PARAMS[tier]
    runs = [gen("assignment", depth=P["exhaust_depth"], spaced="TRUE"),
            gen("assignment", depth=P["sim_depth"], spaced="FALSE", simulate=P["sim"], seed=seed),
            gen("assignment", depth=P["sim_depth"], spaced="TRUE", simulate=P["sim"], seed=seed + 1),
            gen("format", order=P["fmt_order"]),
            gen("string", strlen=P["strlen"])]
    states = sum(r.distinct for r in runs)
    trans = sum(r.generated for r in runs)
    seen, lines = set(), []
    for r in runs:
        for l in r.lines:
            k = (l["kind"], l["text"])
            if k not in seen:
                seen.add(k)
                lines.append(l)
    if not lines:
        raise MachineryError("C12: nothing generated")
    vio = []
    counts = {"assignment": 0, "format": 0, "string": 0}
    nontrivial = 0
    for l in lines:
        counts[l["kind"]] += 1
        res = {"assignment": check_assignment, "format": check_format, "string": check_string}[l["kind"]](l)
        if l["kind"] == "assignment" and not l["rejected"] and l["shape"]["rhs"]["k"] in "+-*":
            nontrivial += 1
        for clause, detail in res:
            vio.append({"what": f"{clause}: {detail}"[:400], "key": {"clause": clause, "kind": l["kind"], "text": l["text"]},
                        "check": "c12", "case": l})
    cov = {"states": states, "transitions": trans, "traces_validated_against_impl": len(lines), "evaluations": len(lines),
           "distinct_nontrivial": nontrivial,
           "rule": "Grammar.tla: assignment trees (exhaustive depth 1 over 25 leaves x 6 targets, -simulate deeper, with "
                   "redundant parentheses, 8 literal spellings, spaced/unspaced), all format strings up to the order "
                   "bound with arbitrary digit orderings, all strings up to the length bound over 12 symbols. "
                   "Non-trivial = a valid assignment whose right-hand side has an operator.",
           "samples": [l for l in lines if l["kind"] == "assignment" and not l["rejected"]][100:103]
                      + [l for l in lines if l["kind"] == "format"][50:51],
           "sentences": counts, "bounds": P, "exhaustive": False}
    return {"violations": vio, "coverage": cov, "assumptions": ["the specification's printer (Text) is the definition of conventional reading"]}


def replay(data):
    l = data["case"]
    fn = {"assignment": check_assignment, "format": check_format, "string": check_string}[l["kind"]]
    print(l["text"], "->", fn(l))
    return {"violations": [], "coverage": {}}
