"""C13: kernel-allocated storage is freed exactly once, after its last user.

spec/Ownership.tla enumerates every history of user actions up to a bounded length (TLC checks NoUseAfterFree,
FreedAtMostOnce, NoLeak, OnlyKernelArraysFreed and the declarative recomputation on every state) and prints each
maximal history with the set of tensors whose arrays must have been freed after every action.  The histories are
replayed in a child Python running under LD_PRELOAD=native/libinterpose.so; after each action (followed by
gc.collect()) the set of watched addresses passed to free() must equal the specification's.
"""
from __future__ import annotations

import json
import os
import subprocess
import sys

from ..common import VERIF, dump
from ..tlc import MachineryError, run_tlc, workdir

PARAMS = {
    "quick": [dict(names='{"n1", "n2"}', maxlen=3, maxt=3, simulate=None),
              dict(names='{"n1", "n2", "n3"}', maxlen=7, maxt=5, simulate=300)],
    "thorough": [dict(names='{"n1", "n2"}', maxlen=4, maxt=4, simulate=None),
                 dict(names='{"n1", "n2", "n3"}', maxlen=9, maxt=6, simulate=1500)],
}
INVARIANTS = ["NoUseAfterFree", "FreedAtMostOnce", "NoLeak", "OnlyKernelArraysFreed", "Declarative"]


def child(histories, d, tag):
    path = d / f"hist-{tag}.json"
    dump(histories, path)
    env = dict(os.environ)
    env["PYTHONPATH"] = str(VERIF / "harness") + os.pathsep + env.get("PYTHONPATH", "")
    env["LD_PRELOAD"] = str(VERIF / "native" / "libinterpose.so")
    p = subprocess.run([sys.executable, "-m", "vf.c13_child", str(path)], capture_output=True, text=True, env=env,
                       cwd=str(VERIF / "harness"), timeout=900 + len(histories))
    outs = [json.loads(l[2:]) for l in p.stdout.splitlines() if l.startswith("@@")]
    return outs, p.returncode, p.stderr[-600:]


def inductive_proof() -> dict:
    """spec/OwnershipInd.tla: the same design with an inductive invariant, discharged by Apalache (any history length;
    3 names, at most 6 tensor ids).  A failed obligation is an error of the specification, not of the code."""
    import shutil

    from ..common import SPEC

    out = workdir("apalache")
    obligations = [("base", ["--init=Init", "--inv=IndInv", "--length=0"]),
                   ("step", ["--init=IndInit", "--inv=IndInv", "--length=1"]),
                   ("safety-follows", ["--init=IndInit", "--inv=Safety", "--length=0"])]
    done = []
    try:
        for name, args in obligations:
            try:
                p = subprocess.run(["apalache-mc", "check", *args, f"--out-dir={out}", "OwnershipInd.tla"], cwd=SPEC,
                                   capture_output=True, text=True, timeout=1200)
            except (OSError, subprocess.TimeoutExpired) as e:
                # the proof is an addition to the bounded exploration below, not a precondition of it
                return {"obligations": len(obligations), "discharged": len(done), "names": done,
                        "skipped": f"apalache-mc could not be run for '{name}': {type(e).__name__}"}
            if "EXITCODE: OK" not in p.stdout:
                raise MachineryError(f"C13: obligation '{name}' of OwnershipInd.tla is not discharged:\n{p.stdout[-800:]}")
            done.append(name)
    finally:
        shutil.rmtree(out, ignore_errors=True)
    return {"obligations": len(obligations), "discharged": len(done), "names": done,
            "checker_cmd": "apalache-mc check --init=IndInit --inv=IndInv --length=1 OwnershipInd.tla (+ base, + Safety)",
            "bounds": "3 names, <= 6 tensor ids, any history length"}


def run(tier, seed):
    if not (VERIF / "native" / "libinterpose.so").exists():
        raise MachineryError("native/libinterpose.so is missing: run ./setup.sh")
    proof = inductive_proof()
    hists, states, trans = [], 0, 0
    for P in PARAMS[tier]:
        d = workdir("c13")
        cfg = d / "Ownership.cfg"
        cfg.write_text(f"SPECIFICATION Spec\nCONSTANTS\n  Names = {P['names']}\n  MaxLen = {P['maxlen']}\n  MaxTensors = {P['maxt']}\n"
                       + "".join(f"INVARIANT {i}\n" for i in INVARIANTS) + "INVARIANT Emit\nCHECK_DEADLOCK FALSE\n")
        if P["simulate"]:
            r = run_tlc("Ownership", str(cfg), simulate=f"num={P['simulate']}", depth=4 * P["maxlen"], seed=seed + 13, workers=1)
        else:
            r = run_tlc("Ownership", str(cfg))
        import shutil

        shutil.rmtree(d, ignore_errors=True)
        if r.violated:
            raise MachineryError(f"C13: the ownership model violates its own invariants: {r.violated}")
        states += r.distinct
        trans += r.generated
        hists += r.lines
    seen, uniq = set(), []
    for h in hists:
        k = json.dumps(h["hist"], sort_keys=True)
        if k not in seen:
            seen.add(k)
            uniq.append(h)
    hists = uniq
    if not hists:
        raise MachineryError("C13: no history generated")
    # TLC has checked the design on every history; the real code replays all of them up to a limit, beyond it a
    # seeded sample (a history is ~4-9 real evaluations plus a gc.collect() per action)
    generated = len(hists)
    limit = 8000 if tier == "quick" else 36000
    if len(hists) > limit:
        import random

        hists = random.Random(13 * seed + 13).sample(hists, limit)
    d = workdir("c13r")
    import concurrent.futures as cf

    chunks = [hists[i::12] for i in range(12)]
    with cf.ThreadPoolExecutor(max_workers=12) as ex:
        futs = [ex.submit(child, ch, d, str(i)) for i, ch in enumerate(chunks) if ch]
        results = [f.result() for f in futs]
    import shutil

    shutil.rmtree(d, ignore_errors=True)
    vio, replayed, steps_checked = [], 0, 0
    for (outs, rc, err), ch in zip(results, [c for c in chunks if c]):
        if rc != 0:
            h = ch[len(outs)] if len(outs) < len(ch) else None
            if rc < 0 or "double free" in err or "corrupt" in err or "Aborted" in err:
                vio.append({"what": f"child process died (rc={rc}, {err[-200:]}) during history {[(a['act'], a['n'], a['m'], a['kind']) for a in h['hist']] if h else '?'}",
                            "key": {"clause": "process-died"}, "check": "c13", "case": h or {}})
            else:
                raise MachineryError(f"C13 child failed rc={rc}: {err}")
        for o in outs:
            h = ch[o["h"]]
            replayed += 1
            acts = [(a["act"], a["n"], a["m"], a["kind"]) for a in h["hist"]]
            for k, (a, st) in enumerate(zip(h["hist"], o["steps"])):
                steps_checked += 1
                want = sorted(a["freed"])
                if st["partial"]:
                    vio.append({"what": f"only some arrays of tensor(s) {st['partial']} were freed after step {k + 1} of {acts}",
                                "key": {"clause": "partially-freed"}, "check": "c13", "case": h})
                    break
                maybe = set(a.get("maybe", []))   # referenced only by items() iterators in flight: either is allowed
                if not (set(want) <= set(st["freed"]) <= set(want) | maybe):
                    early = sorted(set(st["freed"]) - set(want) - maybe)
                    late = sorted(set(want) - set(st["freed"]))
                    clause = "freed-while-referenced" if early else "not-freed-after-last-reference"
                    vio.append({"what": f"{clause}: after step {k + 1} ({a['act']} {a['n']} {a['m']}) of {acts}: freed tensors {st['freed']}, specification {want}",
                                "key": {"clause": clause, "act": a["act"]}, "check": "c13", "case": h})
                    break
            for an in o["anomalies"]:
                vio.append({"what": f"{an} in {acts}", "key": {"clause": "anomaly", "text": an.split(' ')[0]}, "check": "c13", "case": h})
            if o["leaked_at_end"]:
                vio.append({"what": f"arrays of tensors {o['leaked_at_end']} never freed after all names were dropped: {acts}",
                            "key": {"clause": "leak"}, "check": "c13", "case": h})
    cov = {"states": states, "transitions": trans, "traces_validated_against_impl": replayed, "evaluations": steps_checked,
           "distinct_nontrivial": sum(1 for h in hists if any(a["freed"] for a in h["hist"])),
           "rule": "Ownership.tla histories over {evaluate sparse/dense/scalar/empty/reordered, evaluate_with, alias, struct_ref, "
                   "read, iter (items() iterator, also on a temporary Tensor), consume, pickle, del, collect}; released memory "
                   "is poisoned by the interposer so a read after free yields garbage deterministically: exhaustive to the stated length with 2 names, -simulate longer with 3 names; "
                   "each replayed under the malloc/free interposer with the freed set compared after every action. "
                   "Non-trivial = a history in which some tensor's arrays must be freed before the end.",
           "samples": [h["hist"] for h in hists[:2]], "histories": len(hists), "histories_generated": generated, "bounds": PARAMS[tier],
           "design_invariants": INVARIANTS, "inductive_invariant": proof, "exhaustive": False}
    return {"violations": vio, "coverage": cov,
            "assumptions": ["CPython reference counting + gc.collect() after every action",
                            "an array is watched from the moment its address is read from the returned struct until its first free",
                            "initial capacity 2 so that kernels realloc"]}


def replay(data):
    from ..tlc import workdir

    d = workdir("c13p")
    outs, rc, err = child([data["case"]], d, "r")
    print(outs, rc, err)
    return {"violations": [], "coverage": {}}
