"""C01 (see DESIGN.md section 4): projection of the central pipeline."""
from . import _pipe

RULE = ("every catalogue assignment x seeded format assignments (kernels of the working tree) x seeded inputs, run on "
        "spec/IRMachine.tla and judged by spec/KernelRun.tla against TensorAlgebra/Storage; every safe behaviour is "
        "replayed into the LLVM kernel evaluate uses; further inputs are run natively only and the recorded raw arrays "
        "validated by the same judge (observe). Non-trivial = the output stores a non-zero value; distinct = distinct "
        "(assignment, formats, capacity, dims, inputs).")


def run(tier, seed):
    out = _pipe.run_field("C01", "c01", tier, seed, RULE, filt=FILTER)
    # dimensions of the tensor the real call returned (computed by TensorMethod.__call__, not by the kernel)
    for x in out["recs"]:
        if "dimensions" in (x.get("native") or {}).values():
            out["violations"].append(_pipe.violation(x, "output-dimensions", "native-replay", "C01"))
        if "format-label" in (x.get("native") or {}).values():
            out["violations"].append(_pipe.violation(x, "output-format-label", "native-replay", "C01"))
    for x in out["traces"]:
        if not x.get("dims_ok", True):
            out["violations"].append(_pipe.violation(x, "output-dimensions-or-format-label", "native-trace", "C01"))
    for wb in out["r"].get("wide_bad", []):
        if wb["what"] == "garbage-value":
            rec = {"text": wb["text"], "formats": wb["formats"], "cap": wb["cap"], "group": None, "dims": wb["input"]["dims"],
                   "content": wb["input"]["content"], "out": wb.get("out")}
            out["violations"].append(_pipe.violation(rec, "garbage-value(not-finite-or-not-exact)", "native-wide", "C01"))
    # the contraction placement itself: spec/Desugar.tla (model-checked against Denote) vs the real desugar_assignment
    from .. import desugar_conf

    dc = desugar_conf.run(tier, seed)
    out["violations"] += dc["violations"]
    out["coverage"]["states"] += dc["states"]
    out["coverage"]["transitions"] += dc["transitions"]
    out["coverage"]["desugar_trees_compared"] = dc["compared"]
    out["coverage"]["desugar_not_distributable"] = dc["not_distributable"]
    out["coverage"]["desugar_deviating_trees_judged_by_value"] = dc["deviating"]
    out["coverage"]["desugar_alternative_correct"] = dc["alternative_correct"]
    out["coverage"]["oracle_laws_model_checked"] = {"laws": dc["laws"], "states": dc["law_states"]}
    out["coverage"]["traces_validated_against_impl"] += dc["compared"]
    return out


def replay(data):
    return _pipe.replay(data)


FILTER = None
