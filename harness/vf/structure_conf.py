"""Conformance of small structural functions of the compiler with spec/Structure.tla (exhaustive enumeration).

A deviation of an internal function from its specification is NOT a violation of a listed property: the properties
speak about kernels, tensors and outcomes, not about how the compiler is organised, and a refactoring that keeps them
may change any of these functions.  The check_* functions therefore return DEVIATIONS; `witness_requests` turns each
one into the concrete request (assignment + formats) in which the deviating behaviour is exercised, and the owning
check runs that request through its ordinary property-level judge (pipeline: C01/C02/C03/C05/C06; C16: scale judge;
C08: the format sweeps already cover every format of the orders compared here).  Only what that judge finds is a
VIOLATION; the deviation itself is reported as a NOTE and counted in the evidence.
"""
from __future__ import annotations

from .common import use_repo
from .tlc import run_tlc, workdir

use_repo()


def gen(root, *, order=4, dim=3, nnz=10, leaves=4):
    d = workdir("structure")
    cfg = d / "Structure.cfg"
    cfg.write_text(f'SPECIFICATION Spec\nCONSTANTS\n  Root = "{root}"\n  MaxOrder = {order}\n  MaxDim = {dim}\n  MaxNnz = {nnz}\n'
                   f"  MaxLeaves = {leaves}\nINVARIANT Emit\nCHECK_DEADLOCK FALSE\n")
    r = run_tlc("Structure", str(cfg), timeout=1200)
    import shutil

    shutil.rmtree(d, ignore_errors=True)
    return r


def check_orders(tier):
    from tensora.desugar._to_iteration_graphs import legal_iteration_orders
    from tensora.format import Format, Mode

    r = gen("orders", order=4 if tier == "quick" else 5)
    vio = []
    for l in r.lines:
        modes = tuple(Mode.dense if m == "d" else Mode.compressed for m in l["modes"])
        fmt = Format(modes, tuple(range(len(modes))))
        got = sorted(tuple(o) for o in legal_iteration_orders(fmt))
        want = sorted(tuple(o) for o in l["legal"])
        if got != want:
            vio.append({"what": f"legal_iteration_orders({''.join(l['modes'])}) = {got}, specified {want}",
                        "key": {"clause": "legal-iteration-orders", "modes": "".join(l["modes"])}, "check": "structure", "case": l})
        # which of them an append-only OUTPUT may use (only when the tree has such a filter; its absence is not judged)
        import tensora.desugar._to_iteration_graphs as tig

        flt = getattr(tig, "target_layers_in_order", None)
        if flt is not None and len(modes) > 0:
            from tensora.iteration_graph import iteration_graph as ig
            from tensora.iteration_graph.identifiable_expression import TensorLayer
            from tensora.iteration_graph.identifiable_expression import ast as ie

            names = [f"x{i}" for i in range(len(modes))]
            tensor = ie.Tensor("0_a", "a", tuple(names), modes)
            layers = {names[i]: TensorLayer(tensor, i) for i in range(len(modes))}
            allowed = []
            for o in legal_iteration_orders(fmt):
                g = ig.TerminalNode(tensor)
                for i in reversed(o):
                    g = ig.IterationNode(names[i], None, next=g)
                if flt(g, layers):
                    allowed.append(tuple(o))
            want_out = sorted(tuple(o) for o in l["output"])
            if sorted(allowed) != want_out:
                vio.append({"what": f"output iteration orders for modes {''.join(l['modes'])}: the tree allows {sorted(allowed)}, specified {want_out}",
                            "key": {"clause": "output-iteration-orders", "modes": "".join(l["modes"])}, "check": "structure", "case": l})
    return vio, r, len(r.lines)


def check_sparse(tier):
    from tensora.format import Mode
    from tensora.iteration_graph.identifiable_expression import ast as ie
    from tensora.iteration_graph.identifiable_expression import extract_context

    r = gen("sparse", leaves=3 if tier == "quick" else 4)
    vio = []
    counter = [0]

    def build(e):
        if e["k"] == "leaf":
            counter[0] += 1
            n = counter[0]
            kind = e["kind"]
            if kind == "dense":
                return ie.Tensor(f"{n}_t{n}", f"t{n}", ("i",), (Mode.dense,))
            if kind == "compressed":
                return ie.Tensor(f"{n}_t{n}", f"t{n}", ("i",), (Mode.compressed,))
            if kind == "absent":
                return ie.Tensor(f"{n}_t{n}", f"t{n}", ("j",), (Mode.compressed,))
            if kind == "zero":
                return ie.Integer(0)
            if kind == "zerof":
                return ie.Float(0.0)
            return ie.Integer(2)
        cls = ie.Add if e["k"] == "+" else ie.Multiply
        return cls(build(e["l"]), build(e["r"]))

    for l in r.lines:
        counter[0] = 0
        got = extract_context(build(l["expr"]), "i").is_sparse
        if got != l["sparse"]:
            vio.append({"what": f"is_sparse of {l['expr']} at the index = {got}, specified {l['sparse']}",
                        "key": {"clause": "is-sparse"}, "check": "structure", "case": l})
    return vio, r, len(r.lines)


def check_default(tier):
    from tensora.tensor import default_format_given_nnz

    r = gen("default", order=3, dim=3, nnz=10 if tier == "quick" else 30)
    vio = []
    for l in r.lines:
        f = default_format_given_nnz(tuple(l["dims"]), l["nnz"])
        got = [m.character for m in f.modes]
        if got != list(l["modes"]) or list(f.ordering) != list(range(len(got))):
            vio.append({"what": f"default_format_given_nnz({l['dims']}, {l['nnz']}) = {f.deparse()!r}, specified {''.join(l['modes'])!r}",
                        "key": {"clause": "default-format"}, "check": "structure", "case": l})
    return vio, r, len(r.lines)


def check_subgraphs(tier):
    """generate_subgraphs: the set of sub-graphs (by alive compressed operands) must be the specified closure, and no
    sub-graph may be emitted before one it can be derived from (a strict superset of its alive operands)."""
    from tensora.format import Mode
    from tensora.iteration_graph import iteration_graph as ig
    from tensora.iteration_graph._generate_ir import generate_subgraphs
    from tensora.iteration_graph.identifiable_expression import ast as ie

    r = gen("subgraphs", leaves=3 if tier == "quick" else 4)
    vio = []

    def build(e, counter):
        if e["k"] == "leaf":
            counter[0] += 1
            n = counter[0]
            kind = e["kind"]
            if kind == "compressed":
                return ie.Tensor(f"c{e['id']}", f"t{n}", ("i",), (Mode.compressed,))
            if kind == "dense":
                return ie.Tensor(f"d{n}", f"t{n}", ("i",), (Mode.dense,))
            if kind == "absent":
                return ie.Tensor(f"a{n}", f"t{n}", ("j",), (Mode.compressed,))
            if kind == "zero":
                return ie.Integer(0)
            if kind == "zerof":
                return ie.Float(0.0)
            return ie.Integer(2)
        cls = ie.Add if e["k"] == "+" else ie.Multiply
        return cls(build(e["l"], counter), build(e["r"], counter))

    for l in r.lines:
        node = ig.IterationNode("i", None, ig.TerminalNode(build(l["expr"], [0])))
        got = [frozenset(int(x[1:]) for x in g.compressed_dimensions()) for g in generate_subgraphs(node)]
        want = {frozenset(k) for k in l["keys"]}
        if set(got) != want or len(got) != len(set(got)):
            vio.append({"what": f"generate_subgraphs of {l['expr']}: alive sets {sorted(map(sorted, got))}, specified {sorted(map(sorted, want))}",
                        "key": {"clause": "subgraph-lattice"}, "check": "structure", "case": l})
            continue
        for i in range(len(got)):
            for j in range(i + 1, len(got)):
                if got[i] < got[j]:
                    vio.append({"what": f"generate_subgraphs of {l['expr']} emits the sub-graph with alive operands {sorted(got[i])} before "
                                        f"{sorted(got[j])}, from which it is derived (order {list(map(sorted, got))})",
                                "key": {"clause": "subgraph-order"}, "check": "structure", "case": l})
                    break
            else:
                continue
            break
    return vio, r, len(r.lines)


# ---------------------------------------------------------------------------------------------------------------------
# deviations -> property-level witnesses


def _expr_text(e, counter, formats):
    """Assignment text of a Structure.tla expression at index i; fills `formats` for the tensors it introduces."""
    if e["k"] == "leaf":
        kind = e["kind"]
        if kind in ("compressed", "dense", "absent"):
            counter[0] += 1
            nm = f"t{counter[0]}"
            formats[nm] = "d0" if kind == "dense" else "s0"
            return f"{nm}({'j' if kind == 'absent' else 'i'})"
        return {"zero": "0", "zerof": "0.0"}.get(kind, "2")
    return f"({_expr_text(e['l'], counter, formats)} {e['k']} {_expr_text(e['r'], counter, formats)})"


def witness_requests(devs, limit=40):
    """(text, formats) requests exercising the deviating expressions: a(i) = <expr>, both a dense and a compressed
    target.  Shapes carrying a known-finding tag are left out (they are judged as findings elsewhere)."""
    from . import exprs

    out, seen = [], set()
    for dv in devs:
        e = (dv.get("case") or {}).get("expr")
        if not e:
            continue
        formats = {}
        body = _expr_text(e, [0], formats)
        if not any(v for v in formats):
            continue
        text = f"a(i) = {body}"
        try:
            asg = exprs.parse(text)
        except Exception:  # noqa: BLE001
            continue
        if exprs.shape_tags(asg) or exprs.broadcast_target(asg) or text in seen:
            continue
        seen.add(text)
        for tf in ("d0", "s0"):
            out.append((text, dict({"a": tf}, **formats)))
        if len(out) >= limit:
            break
    return out


def note(prop: str, devs: list, what: str) -> None:
    if devs:
        print(f"NOTE property={prop} {len(devs)} deviation(s) of {what} from spec/Structure.tla; not a violation by itself: "
              f"the deviating cases are judged by the property-level checks. First: {devs[0]['what'][:300]}")
