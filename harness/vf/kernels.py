"""From requests (assignment text + formats) to IR programs of the tree under test and machine cases."""
from __future__ import annotations

import itertools
import random
from dataclasses import dataclass, field

from . import exprs
from .common import dyadic, use_repo
from .irjson import enc_function

use_repo()

VALUE_POOL = [1, 2, 3, -1, 0.5, -2, 4, 1.5, 0, 2.5]


def all_formats(order: int) -> list[str]:
    out = []
    for modes in itertools.product("ds", repeat=order):
        for perm in itertools.permutations(range(order)):
            out.append("".join(m + str(p) for m, p in zip(modes, perm)))
    return out


def fmt_record(s: str) -> dict:
    modes = [c for c in s if c in "ds"]
    digits = [int(c) for c in s if c.isdigit()]
    return {"modes": modes, "ordering": digits if digits else list(range(len(modes)))}


@dataclass
class Kernel:
    text: str
    formats: dict  # name -> format string (explicit orderings)
    asg: dict  # harness AST
    names: list = field(default_factory=list)
    progs: dict = field(default_factory=dict)  # kind -> program index (1-based) in the programs list
    error: str | None = None

    @property
    def key(self):
        return self.text + " | " + ",".join(f"{k}:{v}" for k, v in self.formats.items())


def set_capacity(cap: int | None) -> None:
    """Initial capacity of growable output arrays (outside hook: module attribute of the tree under test)."""
    try:
        import tensora.iteration_graph.outputs._append as ap
        from tensora.ir.ast import IntegerLiteral, Multiply

        if not hasattr(ap, "default_array_size"):
            return   # the tree no longer has this knob: kernels keep their own initial capacity
    except ImportError:
        return
    if cap:
        ap.default_array_size = IntegerLiteral(cap)
    else:
        ap.default_array_size = Multiply(IntegerLiteral(1024), IntegerLiteral(1024))


def make_problem(text: str, formats: dict):
    from tensora.expression import parse_assignment
    from tensora.format import parse_format
    from tensora.problem import make_problem as mp

    a = parse_assignment(text).unwrap()
    fm = {n: parse_format(f).unwrap() for n, f in formats.items()}
    return mp(a, fm).unwrap()


def generate_module(problem, kinds: list[str], *, cap: int | None = 2, optimize: bool = True):
    """The real generator of the tree under test. Returns ir.Module; raises what tensora raises."""
    import tensora.generate._tensora as gt
    from tensora.kernel_type import KernelType

    set_capacity(cap)
    kts = [KernelType[k] for k in kinds]
    if optimize:
        r = gt.generate_module_tensora(problem, kts)
    else:
        saved = gt.peephole
        gt.peephole = lambda m: m
        try:
            r = gt.generate_module_tensora(problem, kts)
        finally:
            gt.peephole = saved
    return r.unwrap()


def compile_kernel(text: str, formats: dict, kinds: list[str], programs: list, *, cap=2, optimize=True,
                   budget=20000) -> Kernel:
    """Generate the IR for one request and append its function images to `programs`."""
    asg = exprs.parse(text)
    k = Kernel(text, dict(formats), asg)
    try:
        problem = make_problem(text, formats)
        module = generate_module(problem, kinds, cap=cap, optimize=optimize)
    except Exception as e:  # noqa: BLE001 - the outcome class is judged by C08, not here
        k.error = type(e).__name__
        return k
    k.names = list(problem.formats.keys())
    for fn in module.definitions:
        programs.append(enc_function(fn, budget=budget))
        k.progs[fn.name.name] = len(programs)
    return k


# ---------------------------------------------------------------------------------------------------------------------
# inputs


def choose_dims(asg, rng: random.Random, sizes=(0, 1, 2, 2, 3)) -> dict:
    cls = exprs.index_classes(asg)
    size = {}
    return {i: size.setdefault(r, rng.choice(sizes)) for i, r in cls.items()}


def cells_of(dims_t):
    return list(itertools.product(*[range(d) for d in dims_t]))


def sample_content(asg, dims: dict, rng: random.Random, pattern: str | None = None) -> dict:
    """name -> [[coord, dyadic], ...] for every input tensor."""
    out = {}
    for name, idx in exprs.first_use(asg).items():
        cells = cells_of([dims[i] for i in idx])
        pat = pattern or rng.choice(["empty", "one", "half", "half", "full", "most"])
        n = {"empty": 0, "one": 1, "half": len(cells) // 2, "full": len(cells), "most": max(0, len(cells) - 1),
             "few": min(3, len(cells))}[pat]
        n = min(n, len(cells))
        chosen = rng.sample(cells, n)
        out[name] = [[list(c), dyadic(rng.choice(VALUE_POOL))] for c in sorted(chosen)]
    return out


def tensor_table(k: Kernel) -> dict:
    fu = exprs.first_use(k.asg)
    t = {}
    for name in k.names:
        idx = k.asg["tidx"] if name == k.asg["target"] else fu[name]
        t[name] = {"fmt": fmt_record(k.formats[name]), "idx": list(idx)}
    return t


def npre_blocks(k: Kernel) -> int:
    n = 0
    for name in k.names:
        f = fmt_record(k.formats[name])
        n += 1  # dimensions
        for m in f["modes"]:
            n += 1 if (m == "d" or name == k.asg["target"]) else 3
        n += 1  # indices
        if name != k.asg["target"]:
            n += 1  # vals
    return n


def base_case(k: Kernel, cid: int, dimsets: list, vals: list, script: list, judge: str, *, emit=True) -> dict:
    return {
        "id": cid,
        "names": k.names,
        "target": k.asg["target"],
        "tensors": tensor_table(k),
        "asg": {"tidx": list(k.asg["tidx"]), "rhs": exprs.strip(k.asg["rhs"])},
        "dimsets": [dict(d, _=0) for d in dimsets],
        "vals": [dict(v, _=[]) for v in vals],
        "script": script,
        "judge": judge,
        "emit": emit,
        "emitraw": False,
        "npre": npre_blocks(k),
    }


def single_script(prog: int) -> list:
    return [{"op": "load", "val": 1, "dims": 1}, {"op": "run", "prog": prog, "track": False},
            {"op": "snap", "vals": True}]
