"""Pool of sacrificial native workers."""
from __future__ import annotations

import json
import os
import queue
import subprocess
import sys
import threading
from pathlib import Path

from .common import VERIF


class Pool:
    def __init__(self, n: int = 16, timeout: float = 120.0, env: dict | None = None, preload: str | None = None):
        self.n = n
        self.timeout = timeout
        self.env = dict(os.environ)
        self.env["PYTHONPATH"] = str(VERIF / "harness") + os.pathsep + self.env.get("PYTHONPATH", "")
        self.env.setdefault("PYTHONHASHSEED", "0")
        if env:
            self.env.update(env)
        if preload:
            self.env["LD_PRELOAD"] = preload

    def _spawn(self):
        return subprocess.Popen([sys.executable, "-m", "vf.native_worker"], stdin=subprocess.PIPE,
                                stdout=subprocess.PIPE, stderr=subprocess.DEVNULL, text=True, env=self.env,
                                cwd=str(VERIF / "harness"))

    def run(self, tasks: list[dict]) -> dict:
        """Run all tasks; returns id -> result. A crash/hang yields {"crashed": True, "progress": last cid}."""
        q: queue.Queue = queue.Queue()
        for t in tasks:
            q.put(t)
        results: dict = {}
        lock = threading.Lock()

        def serve():
            proc = None
            while True:
                try:
                    task = q.get_nowait()
                except queue.Empty:
                    break
                if proc is None or proc.poll() is not None:
                    proc = self._spawn()
                progress = None
                res = None
                try:
                    proc.stdin.write(json.dumps(task) + "\n")
                    proc.stdin.flush()
                    timed_out = []

                    def on_timeout(pr=proc, flag=timed_out):
                        flag.append(True)
                        pr.kill()

                    timer = threading.Timer(task.get("timeout", self.timeout), on_timeout)
                    timer.start()
                    try:
                        while True:
                            line = proc.stdout.readline()
                            if not line:
                                break
                            if not line.startswith("@@"):
                                continue
                            msg = json.loads(line[2:])
                            if "progress" in msg:
                                progress = msg["progress"]
                                continue
                            res = msg
                            break
                    finally:
                        timer.cancel()
                except (BrokenPipeError, OSError):
                    pass
                if res is None and timed_out and not task.get("_retried"):
                    # the wall-clock limit says nothing on a loaded machine: one more attempt with a five-fold limit
                    # before the task counts as hung (a real crash - the process died by itself - is not retried)
                    try:
                        proc.kill()
                    except OSError:
                        pass
                    proc = None
                    q.put(dict(task, _retried=True, timeout=5 * task.get("timeout", self.timeout)))
                    continue
                if res is None:
                    rc = proc.poll()
                    res = {"id": task["id"], "crashed": True, "progress": progress, "returncode": rc,
                           "timed_out": bool(timed_out)}
                    try:
                        proc.kill()
                    except OSError:
                        pass
                    proc = None
                with lock:
                    results[task["id"]] = res
            if proc is not None and proc.poll() is None:
                try:
                    proc.stdin.close()
                    proc.wait(timeout=5)
                except Exception:  # noqa: BLE001
                    proc.kill()

        threads = [threading.Thread(target=serve) for _ in range(min(self.n, max(1, len(tasks))))]
        for t in threads:
            t.start()
        for t in threads:
            t.join()
        for tid, r in results.items():
            if "worker_exc" in r:
                from .tlc import MachineryError

                raise MachineryError(
                    f"native worker failed on task {tid}: {r.get('worker_exc')}: {r.get('msg')}\n{r.get('tb')}")
        return results
