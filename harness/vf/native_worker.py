"""Sacrificial worker: compiles and runs REAL kernels of the tree under test.

Protocol: one JSON task per stdin line, one JSON result per stdout line (prefixed with '@@' so stray prints
from native code cannot be mistaken for results).  A kernel that segfaults kills only this process; the parent
attributes the crash to the task in flight.
"""
from __future__ import annotations

import json
import os
import sys
import traceback

from .common import use_repo

use_repo()


from .native_ops import OPS  # noqa: E402


def main():
    for line in sys.stdin:
        line = line.strip()
        if not line:
            continue
        task = json.loads(line)
        try:
            res = OPS[task["op"]](task)
        except Exception as e:  # noqa: BLE001
            res = {"worker_exc": type(e).__name__, "msg": str(e)[:500], "tb": traceback.format_exc()[-1500:]}
        res["id"] = task["id"]
        sys.stdout.write("@@" + json.dumps(res) + "\n")
        sys.stdout.flush()


if __name__ == "__main__":
    os.environ.setdefault("PYTHONHASHSEED", "0")
    main()
