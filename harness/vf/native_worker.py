"""Sacrificial worker: compiles and runs REAL kernels of the tree under test.

Protocol: one JSON task per stdin line, one JSON result per stdout line (prefixed with '@@' so stray prints
from native code cannot be mistaken for results).  A kernel that segfaults kills only this process; the parent
attributes the crash to the task in flight.
"""
from __future__ import annotations

import json
import os
import sys
import traceback

from .common import use_repo

use_repo()


def _tensor(spec):
    """{"fmt": {"modes","ordering"}, "dims": [...], "levels": [[]|[pos,crd]], "vals": [...]} -> Tensor (raw arrays)."""
    from tensora import Tensor
    from tensora.compile import taco_structure_to_cffi

    modes = tuple(0 if m == "d" else 1 for m in spec["fmt"]["modes"])
    cffi_t = taco_structure_to_cffi(
        [list(map(list, lv)) for lv in spec["levels"]],
        [float(v) for v in spec["vals"]],
        mode_types=modes,
        dimensions=tuple(spec["dims"]),
        mode_ordering=tuple(spec["fmt"]["ordering"]),
    )
    return Tensor(cffi_t)


def _raw(t):
    return {"dims": list(t.dimensions), "levels": t.taco_indices, "vals": t.taco_vals,
            "modes": [m.character for m in t.modes], "ordering": list(t.mode_ordering)}


def op_eval_batch(task):
    """Run one kernel (through tensor_method, the path evaluate uses) on many input sets."""
    from tensora import tensor_method
    from tensora.compile import BackendCompiler

    from .kernels import set_capacity

    set_capacity(task.get("cap"))
    backend = BackendCompiler[task.get("backend", "llvm")]
    try:
        fn = tensor_method(task["text"], task["formats"], backend)
    except Exception as e:  # noqa: BLE001
        return {"compile_exc": type(e).__name__, "msg": str(e)[:300]}
    outs = []
    for inp in task["inputs"]:
        sys.stdout.write("@@" + json.dumps({"id": task["id"], "progress": inp.get("cid")}) + "\n")
        sys.stdout.flush()
        try:
            args = {name: _tensor(spec) for name, spec in inp["tensors"].items()}
            out = fn(**args)
            outs.append({"cid": inp.get("cid"), "out": _raw(out)})
        except Exception as e:  # noqa: BLE001
            outs.append({"cid": inp.get("cid"), "exc": type(e).__name__, "msg": str(e)[:300]})
    return {"outs": outs}


OPS = {"eval_batch": op_eval_batch}


def main():
    # late registration of the other native operations (kept in their check modules)
    from . import native_ops  # noqa: F401

    for line in sys.stdin:
        line = line.strip()
        if not line:
            continue
        task = json.loads(line)
        try:
            res = OPS[task["op"]](task)
        except Exception as e:  # noqa: BLE001
            res = {"worker_exc": type(e).__name__, "msg": str(e)[:500], "tb": traceback.format_exc()[-1500:]}
        res["id"] = task["id"]
        sys.stdout.write("@@" + json.dumps(res) + "\n")
        sys.stdout.flush()


if __name__ == "__main__":
    os.environ.setdefault("PYTHONHASHSEED", "0")
    main()
