"""Selecting kernels of the working tree for the script-based checks (C04, C07, C16)."""
from __future__ import annotations

import random

from . import exprs, kernels
from .catalogue import BROADCAST_TARGET, CATALOGUE
from .pipeline import format_choices


def select(rng: random.Random, kinds: list[str], per_assignment: int, tries: int, cap, *, programs: list,
           optimize: bool = True, catalogue=None, want=None, budget: int = 20000):
    """Yield (Kernel, group) for catalogue assignments x seeded format assignments for which generation succeeds.
    `want(kernel)` may reject a kernel (e.g. C16 needs a sparse-only index)."""
    out = []
    for group, text in (catalogue if catalogue is not None else CATALOGUE + BROADCAST_TARGET):
        asg = exprs.parse(text)
        got = 0
        for fm in format_choices(asg, rng, per_assignment, tries):
            if got >= per_assignment:
                break
            probe = kernels.compile_kernel(text, fm, kinds, [], cap=cap, optimize=optimize)
            if probe.error or (want is not None and not want(probe)):
                continue
            got += 1
            k = kernels.compile_kernel(text, fm, kinds, programs, cap=cap, optimize=optimize, budget=budget)
            out.append((k, group))
    return out
