"""Selecting kernels of the working tree for the script-based checks (C04, C07, C16)."""
from __future__ import annotations

import random

from . import exprs, kernels
from .catalogue import BROADCAST_TARGET, CATALOGUE
from .pipeline import format_choices


SWEEP = [("a(i,j,k) = b(i,j,k)", ["d0d1d2", "s0s1s2", "d0s1s2", "d0d1s2", "s0d1s2"]), ("a(i,j) = b(i,j)", ["d0d1", "s0s1"]),
         ("a(i,j) = b(i,j,k) * c(k)", ["d0d1d2", "s0s1s2"])]


SWEEP4 = [("a(i,j,k,l) = b(i,j,k,l)", ["s0s1s2s3", "d0s1s2s3"]), ("a(i,j,k,l) = b(i,k,j,l)", ["s0s1s2s3"])]


def target_sweep4():
    """Order 4: every dense/compressed pattern of the target in natural ordering (16) against compressed inputs."""
    import itertools

    for text, in_formats in SWEEP4:
        for pat in itertools.product("ds", repeat=4):
            for inf in in_formats:
                yield text, {"a": "".join(m + str(i) for i, m in enumerate(pat)), "b": inf}


def target_sweep():
    """EVERY format of the target (all modes x orderings) against a few natural input formats, for copy-like shapes:
    output-side mechanisms (append cursors, growth, scratch space, final sizes) depend on the target format only."""
    for text, in_formats in SWEEP:
        asg = exprs.parse(text)
        orders = exprs.tensor_orders(asg)
        others = [n for n in orders if n != asg["target"]]
        for tf in kernels.all_formats(orders[asg["target"]]):
            for inf in in_formats:
                fm = {asg["target"]: tf}
                for n in others:
                    fm[n] = inf if orders[n] == len([c for c in inf if c in "ds"]) else "".join(f"d{i}" for i in range(orders[n]))
                yield text, fm


def select(rng: random.Random, kinds: list[str], per_assignment: int, tries: int, cap, *, programs: list,
           optimize: bool = True, catalogue=None, want=None, budget: int = 20000):
    """Yield (Kernel, group) for catalogue assignments x seeded format assignments for which generation succeeds.
    `want(kernel)` may reject a kernel (e.g. C16 needs a sparse-only index)."""
    out = []
    for text, fm in list(target_sweep()) + list(target_sweep4()):
        probe = kernels.compile_kernel(text, fm, kinds, [], cap=cap, optimize=optimize)
        if probe.error or (want is not None and not want(probe)):
            continue
        out.append((kernels.compile_kernel(text, fm, kinds, programs, cap=cap, optimize=optimize, budget=budget), "target-sweep"))
    for group, text in (catalogue if catalogue is not None else CATALOGUE + BROADCAST_TARGET):
        asg = exprs.parse(text)
        got = 0
        for fm in format_choices(asg, rng, per_assignment, tries):
            if got >= per_assignment:
                break
            probe = kernels.compile_kernel(text, fm, kinds, [], cap=cap, optimize=optimize)
            if probe.error or (want is not None and not want(probe)):
                continue
            got += 1
            k = kernels.compile_kernel(text, fm, kinds, programs, cap=cap, optimize=optimize, budget=budget)
            out.append((k, group))
    return out
