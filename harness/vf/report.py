"""Known findings, replay files, evidence files, exit codes."""
from __future__ import annotations

import hashlib
import json
import re
import subprocess
from pathlib import Path

from .common import EVIDENCE, REPLAYS, VERIF

FINDINGS_FILE = VERIF / "known_findings.json"


def load_findings() -> list[dict]:
    if not FINDINGS_FILE.exists():
        return []
    return json.loads(FINDINGS_FILE.read_text()).get("findings", [])


def _match_value(pattern, value) -> bool:
    if isinstance(pattern, dict) and "regex" in pattern:
        return isinstance(value, str) and re.search(pattern["regex"], value) is not None
    if isinstance(pattern, dict) and "in" in pattern:
        return value in pattern["in"]
    return pattern == value


def match_finding(findings: list[dict], prop: str, key: dict) -> dict | None:
    """A finding matches when every field of its `match` equals (or regex-matches) the violation's key field."""
    for f in findings:
        if f.get("property") != prop:
            continue
        if all(_match_value(p, key.get(k)) for k, p in f.get("match", {}).items()):
            return f
    return None


def write_replay(prop: str, violation: dict) -> Path:
    REPLAYS.mkdir(parents=True, exist_ok=True)
    blob = json.dumps(violation, sort_keys=True, default=str)
    h = hashlib.sha256(blob.encode()).hexdigest()[:12]
    p = REPLAYS / f"{prop}-{h}.json"
    p.write_text(json.dumps({"property": prop, **violation}, indent=1, default=str))
    return p


def write_evidence(prop: str, tier: str, seed: int, coverage: dict, wall: float, violations: int,
                   assumptions: list[str], level: str = "model_checking") -> Path:
    EVIDENCE.mkdir(parents=True, exist_ok=True)
    cov = dict(coverage)
    samples = cov.get("samples") or []
    cov["samples"] = samples[:6]
    ev = {"property_id": prop, "tier": tier, "seed": seed, "level": level, "coverage": cov,
          "assumptions": assumptions, "wall_s": round(wall, 2), "violations": violations}
    p = EVIDENCE / f"{prop}.json"
    p.write_text(json.dumps(ev, indent=1, default=str))
    return p


def validate_evidence(path: Path) -> str | None:
    """Validate against the published schema with the tooling venv's jsonschema (None = valid / not checkable)."""
    code = (
        "import json,sys,jsonschema;"
        "s=json.load(open('/root/.vp/EVIDENCE.schema.json'));"
        "jsonschema.validate(json.load(open(sys.argv[1])),s)"
    )
    try:
        r = subprocess.run(["python3-vt", "-c", code, str(path)], capture_output=True, text=True, timeout=60)
    except (OSError, subprocess.TimeoutExpired):
        return None
    if r.returncode != 0 and "No such file" not in r.stderr:
        return r.stderr.strip()[-400:]
    return None
