"""Replays Ownership.tla histories in a Python process running under LD_PRELOAD=native/libinterpose.so.

For every action of every history it reports which tensors' kernel-allocated arrays have been passed to free() so
far, what the kernel allocated and left behind inside the native call, and whether reads still give the right data.
"""
from __future__ import annotations

import ctypes
import gc
import json
import pickle
import sys

from .common import use_repo

use_repo()

lib = ctypes.CDLL(None)
lib.verif_get.argtypes = [ctypes.c_int, ctypes.POINTER(ctypes.c_int), ctypes.POINTER(ctypes.c_size_t),
                          ctypes.POINTER(ctypes.c_size_t), ctypes.POINTER(ctypes.c_size_t)]
MAXEV = 65536


def drain():
    """All events recorded since the last drain (recording stays on)."""
    n = lib.verif_nev()
    if n >= MAXEV:
        raise RuntimeError("interposer ring overflow")
    out = []
    k, a, b, s = ctypes.c_int(), ctypes.c_size_t(), ctypes.c_size_t(), ctypes.c_size_t()
    for i in range(n):
        lib.verif_get(i, ctypes.byref(k), ctypes.byref(a), ctypes.byref(b), ctypes.byref(s))
        out.append((k.value, a.value, b.value, s.value))
    lib.verif_reset()
    return out


class Window:
    """Wraps the compiled function pointer: remembers which events happened inside the native call."""

    last = None

    def __init__(self, inner):
        self.inner = inner

    def __call__(self, *a):
        before = drain()
        r = self.inner(*a)
        Window.last = drain()
        Window.pre = before
        return r


def main():
    import tensora
    import tensora.compile._porcelain as porc
    from tensora import Tensor
    from tensora.compile import tensor_cdefs

    from .kernels import set_capacity

    set_capacity(2)
    from .common import hook_kernel_entry

    hook_kernel_entry(lambda tm, inner: Window(inner))

    A = Tensor.from_dok({(0, 1): 2.0, (1, 2): 3.0, (2, 0): 1.5}, dimensions=(3, 3), format="ds")
    x = Tensor.from_lol([1.0, 2.0, 4.0])

    E = Tensor.from_dok({}, dimensions=(3, 3), format="ds")

    from tensora.compile import TensorMethod
    from tensora.expression import parse_assignment
    from tensora.format import parse_format
    from tensora.problem import Problem

    def reordered(**kw):
        # a TensorMethod of its own that goes out of scope as soon as the call returns: the output outlives its kernel
        tm = TensorMethod(Problem(parse_assignment("y(i) = A(i,j) * x(j)").unwrap(),
                                  {"A": parse_format("ds").unwrap(), "x": parse_format("d").unwrap(),
                                   "y": parse_format("s").unwrap()}))
        return tm(**kw)


    B3 = Tensor.from_dok({(0, 1, 2): 1.0, (0, 3, 0): 2.0, (2, 0, 1): 3.0, (2, 4, 2): 4.0, (4, 2, 0): 5.0, (5, 4, 1): 6.0,
                          (5, 4, 2): 7.0}, dimensions=(6, 5, 3), format="sss")

    def make(kind):
        if kind == "sds":
            return tensora.evaluate("T(i,j,k) = B(i,j,k)", "sds", B=B3), B3.to_dok()
        if kind == "reordered":
            return reordered(A=A, x=x), {(0,): 4.0, (1,): 12.0, (2,): 1.5}
        if kind == "empty":
            return tensora.evaluate("y(i) = A(i,j) * x(j)", "s", A=E, x=x), {}
        if kind == "sparse":
            return tensora.evaluate("y(i) = A(i,j) * x(j)", "s", A=A, x=x), {(0,): 4.0, (1,): 12.0, (2,): 1.5}
        if kind == "dense":
            return tensora.evaluate("y(i) = A(i,j) * x(j)", "d", A=A, x=x), {(0,): 4.0, (1,): 12.0, (2,): 1.5}
        return tensora.evaluate("s() = x(i) * x(i)", "", x=x), {(): 21.0}

    def derive(t, kind):
        if kind == "sds":
            return tensora.evaluate("z(i,j,k) = 2 * t(i,j,k)", "sds", t=t)
        if kind in ("empty", "reordered"):
            return tensora.evaluate("z(i) = 2 * t(i)", "s", t=t)
        if kind == "scalar":
            return tensora.evaluate("z() = 2 * t()", "", t=t)
        return tensora.evaluate("z(i) = 2 * t(i)", "s" if kind == "sparse" else "d", t=t)

    lib.malloc_usable_size.restype = ctypes.c_size_t
    lib.malloc_usable_size.argtypes = [ctypes.c_void_p]

    def too_short(t):
        """Arrays of a live kernel output that are shorter than the structure they describe (pos/crd: 4 bytes per entry,
        vals: 8): 'stays valid' means the whole described extent is still allocated."""
        c = t.cffi_tensor
        idx = t.taco_indices
        bad = []
        want = [("vals", int(tensor_cdefs.cast("uintptr_t", c.vals)), 8 * len(t.taco_vals))]
        for l in range(c.order):
            if c.mode_types[l] == 1:
                lv = tensor_cdefs.cast("int32_t***", c.indices)[l]
                want.append((f"pos{l}", int(tensor_cdefs.cast("uintptr_t", lv[0])), 4 * len(idx[l][0])))
                want.append((f"crd{l}", int(tensor_cdefs.cast("uintptr_t", lv[1])), 4 * len(idx[l][1])))
        for name, ad, need in want:
            if ad and need and lib.malloc_usable_size(ctypes.c_void_p(ad)) < need:
                bad.append(f"{name}: {lib.malloc_usable_size(ctypes.c_void_p(ad))} bytes allocated, {need} described")
        return bad

    def addresses(t):
        c = t.cffi_tensor
        out = [int(tensor_cdefs.cast("uintptr_t", c.vals))]
        for l in range(c.order):
            if c.mode_types[l] == 1:
                lv = tensor_cdefs.cast("int32_t***", c.indices)[l]
                out += [int(tensor_cdefs.cast("uintptr_t", lv[0])), int(tensor_cdefs.cast("uintptr_t", lv[1]))]
        return [a for a in out if a]

    # warm up the kernels (compilation allocates; keep it out of the histories)
    for kd in ("sparse", "dense", "scalar", "empty", "reordered", "sds"):
        t, _ = make(kd)
        derive(t, kd)
        del t
    gc.collect()

    histories = json.load(open(sys.argv[1]))
    lib.verif_reset()
    lib.verif_record(1)
    for hi, h in enumerate(histories):
        ns = {}
        watched = {}       # address -> tensor id (arrays not yet freed)
        arrays = {}        # tensor id -> set of addresses
        freed_arrays = {}  # tensor id -> set of freed addresses
        expect = {}        # tensor id -> content
        ntens = 0
        tid_of = {}        # name -> tensor id
        steps = []
        anomalies = []
        drain()

        def absorb(events):
            for k, a, b, s in events:
                if k == 2 and a in watched:
                    tid = watched.pop(a)
                    freed_arrays[tid].add(a)
                elif k == 3 and a in watched and a != 0:
                    tid = watched.pop(a)
                    anomalies.append(f"realloc of an owned array of tensor {tid} outside a kernel")
                    freed_arrays[tid].add(a)

        for a in h["hist"]:
            act, n, m = a["act"], a["n"], a["m"]
            try:
                if act in ("evaluate", "evaluate_with"):
                    Window.last = None
                    if act == "evaluate":
                        t, content = make(a["kind"])
                    else:
                        src = ns[m]
                        t = derive(src, a["kind"])
                    ntens += 1
                    tid = ntens
                    tid_of[n] = tid
                    addrs = addresses(t)
                    arrays[tid] = set(addrs)
                    freed_arrays[tid] = set()
                    # what the kernel allocated inside the native call and did not release must be exactly the output
                    if Window.last is not None:
                        absorb(Window.pre)
                        live = set()
                        for k, p, q, s in Window.last:
                            if k == 1:
                                live.add(p)
                            elif k == 2:
                                live.discard(p)
                                if p in watched:
                                    anomalies.append(f"kernel freed an array of tensor {watched[p]}")
                            elif k == 3:
                                live.discard(p)
                                live.add(q)
                                if p in watched:
                                    anomalies.append(f"kernel reallocated an array of tensor {watched[p]}")
                        live.discard(0)
                        if live - set(addrs):
                            anomalies.append(f"kernel leaked {len(live - set(addrs))} allocation(s)")
                        if set(addrs) - live:
                            anomalies.append("output array not allocated inside the kernel call")
                    for ad in addrs:
                        watched[ad] = tid
                    short = too_short(t)
                    if short:
                        anomalies.append(f"array of the live output tensor {tid} is shorter than the structure it describes: {short}")
                    expect[tid] = t.to_dok()
                    ns[n] = t
                elif act == "alias":
                    ns[n] = ns[m]
                    tid_of[n] = tid_of[m]
                elif act == "struct_ref":
                    ns[n] = ns[m].cffi_tensor
                    tid_of[n] = tid_of[m]
                elif act == "read":
                    obj = ns[n]
                    tt = obj if isinstance(obj, Tensor) else Tensor(obj)
                    got = tt.to_dok()
                    if got != expect[tid_of[n]]:
                        anomalies.append(f"read of {n} (tensor {tid_of[n]}) returned {got}, expected {expect[tid_of[n]]}")
                    del tt
                elif act == "iter":
                    obj = ns[m]
                    ns[n] = (obj if isinstance(obj, Tensor) else Tensor(obj)).items()
                    tid_of[n] = tid_of[m]
                elif act == "consume":
                    it = ns.pop(n)
                    tid = tid_of.pop(n)
                    got = {tuple(c): v for c, v in it if v != 0}
                    it = None
                    if got != expect[tid]:
                        anomalies.append(f"consume of the items() iterator {n} (tensor {tid}) yielded {got}, expected {expect[tid]}")
                elif act == "pickle":
                    t = pickle.loads(pickle.dumps(ns[m]))
                    ntens += 1
                    expect[ntens] = expect[tid_of[m]]
                    tid_of[n] = ntens
                    arrays[ntens] = set()
                    freed_arrays[ntens] = set()
                    ns[n] = t
                elif act == "del":
                    ns.pop(n, None)
                    tid_of.pop(n, None)
                elif act == "collect":
                    pass
                elif act == "drop_kernels":
                    # every compiled kernel object goes away (as on cache eviction): live outputs must stay valid
                    porc.cachable_tensor_method.cache_clear()
                    gc.collect()
                    absorb(drain())
                    # compile the kernels again outside the recording (compilation allocates far more than the ring holds)
                    lib.verif_record(0)
                    for kd in ("sparse", "dense", "scalar", "empty", "sds"):
                        tw, _ = make(kd)
                        derive(tw, kd)
                        tw = None
                    gc.collect()
                    lib.verif_reset()
                    lib.verif_record(1)
                t = None
                src = None
                obj = None
                it = None
                gc.collect()
            except Exception as e:  # noqa: BLE001
                anomalies.append(f"{act} raised {type(e).__name__}: {e}")
            absorb(drain())
            fully = sorted(tid for tid in arrays if arrays[tid] and freed_arrays[tid] == arrays[tid])
            partial = sorted(tid for tid in arrays if freed_arrays[tid] and freed_arrays[tid] != arrays[tid])
            steps.append({"freed": fully, "partial": partial})
        # content check of everything still named (use after free would show as garbage or crash)
        for n, obj in list(ns.items()):
            try:
                if hasattr(obj, "__next__"):
                    got = {tuple(c): v for c, v in obj if v != 0}
                    if got != expect[tid_of[n]]:
                        anomalies.append(f"final consume of the items() iterator {n} yielded {got}, expected {expect[tid_of[n]]}")
                    continue
                tt = obj if isinstance(obj, Tensor) else Tensor(obj)
                tt.to_dok()
            except Exception as e:  # noqa: BLE001
                anomalies.append(f"final read of {n} raised {type(e).__name__}")
        obj = tt = t = src = it = None
        ns.clear()
        gc.collect()
        absorb(drain())
        leaked = sorted(tid for tid in arrays if arrays[tid] and freed_arrays[tid] != arrays[tid])
        sys.stdout.write("@@" + json.dumps({"h": hi, "steps": steps, "anomalies": anomalies, "leaked_at_end": leaked}) + "\n")
        sys.stdout.flush()
    lib.verif_record(0)


if __name__ == "__main__":
    main()
