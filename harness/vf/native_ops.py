"""Native operations executed inside the sacrificial workers (vf.native_worker)."""
from __future__ import annotations

import json
import sys

from .common import use_repo

use_repo()


def _tensor(spec):
    """{"fmt": {"modes","ordering"}, "dims": [...], "levels": [[]|[pos,crd]], "vals": [...]} -> Tensor (raw arrays)."""
    from tensora import Tensor
    from tensora.compile import taco_structure_to_cffi

    modes = tuple(0 if m == "d" else 1 for m in spec["fmt"]["modes"])
    cffi_t = taco_structure_to_cffi(
        [list(map(list, lv)) for lv in spec["levels"]],
        [float(v) for v in spec["vals"]],
        mode_types=modes,
        dimensions=tuple(spec["dims"]),
        mode_ordering=tuple(spec["fmt"]["ordering"]),
    )
    return Tensor(cffi_t)


def _raw(t):
    return {"dims": list(t.dimensions), "levels": t.taco_indices, "vals": t.taco_vals,
            "modes": [m.character for m in t.modes], "ordering": list(t.mode_ordering)}


def _chain(out):
    """C02: a returned tensor must be usable - converted, compared, pickled, fed to another kernel - without error."""
    import pickle

    import tensora

    try:
        d1 = out.to_dok()
        n = out.order
        ok = out == out
        t2 = out.to_format("d" * n)
        ok = ok and t2.to_dok() == d1
        t3 = pickle.loads(pickle.dumps(out))
        ok = ok and t3.to_dok() == d1 and t3.taco_indices == out.taco_indices and t3.taco_vals == out.taco_vals
        idx = ",".join(f"i{k}" for k in range(n))
        from tensora.desugar import NoKernelFoundError

        for text, fmt, want in ((f"c({idx}) = a({idx})", "d" * n, d1),
                                (f"c({idx}) = a({idx}) + a({idx})", "s" * n, {k: 2 * v for k, v in d1.items()})):
            try:
                r = tensora.evaluate(text, fmt, a=out)
            except NoKernelFoundError:
                continue   # a documented refusal for this format combination, not a defect of the result
            ok = ok and r.to_dok() == want
        return "ok" if ok else "mismatch"
    except Exception as e:  # noqa: BLE001
        return "raised-" + type(e).__name__ + ": " + str(e)[:120]


def op_eval_batch(task):
    """Run one kernel (through tensor_method, the path evaluate uses) on many input sets."""
    from tensora import tensor_method
    from tensora.compile import BackendCompiler

    from .kernels import set_capacity

    set_capacity(task.get("cap"))
    backend = BackendCompiler[task.get("backend", "llvm")]
    try:
        fn = tensor_method(task["text"], task["formats"], backend)
    except Exception as e:  # noqa: BLE001
        return {"compile_exc": type(e).__name__, "msg": str(e)[:300]}
    outs = []
    for inp in task["inputs"]:
        sys.stdout.write("@@" + json.dumps({"id": task["id"], "progress": inp.get("cid")}) + "\n")
        sys.stdout.flush()
        try:
            args = {name: _tensor(spec) for name, spec in inp["tensors"].items()}
            out = fn(**args)
            rec = {"cid": inp.get("cid"), "out": _raw(out)}
            if task.get("chain"):
                rec["chain"] = _chain(out)
            outs.append(rec)
        except Exception as e:  # noqa: BLE001
            outs.append({"cid": inp.get("cid"), "exc": type(e).__name__, "msg": str(e)[:300]})
    return {"outs": outs}


OPS = {"eval_batch": op_eval_batch}




def _apply_map(tensor, m):
    """Re-value an input tensor in place (same structure): the caller-side counterpart of KernelRun!Revalue."""
    from tensora.compile import tensor_cdefs

    n = len(tensor.taco_vals)
    vals = tensor_cdefs.cast("double*", tensor.cffi_tensor.vals)
    for i in range(n):
        vals[i] = {"zero": 0.0, "triple": vals[i] * 3.0, "negate": -vals[i], "half": vals[i] * 0.5}[m]


def op_history_batch(task):
    """C04: assemble / compute / evaluate of ONE generated module, called in the history's order on real
    taco_tensor_t structures (LLVM JIT of the module the CLI would print)."""
    from tensora.compile import allocate_taco_structure, take_ownership_of_arrays, tensor_cdefs
    from tensora.compile._compile_llvm import compile_module
    from tensora import Tensor

    from . import kernels

    try:
        problem = kernels.make_problem(task["text"], task["formats"])
        module = kernels.generate_module(problem, ["assemble", "compute", "evaluate"], cap=task.get("cap"))
        engine = compile_module(module)
    except Exception as e:  # noqa: BLE001
        return {"compile_exc": type(e).__name__, "msg": str(e)[:300]}
    names = list(problem.formats.keys())
    sig = f"int32_t (*)({', '.join(['void *'] * len(names))})"
    fns = {k: tensor_cdefs.cast(sig, engine.get_function_address(k)) for k in ("assemble", "compute", "evaluate")}
    out_name = problem.assignment.target.name
    ofmt = problem.formats[out_name]
    outs = []
    import json
    import sys

    for inp in task["inputs"]:
        sys.stdout.write("@@" + json.dumps({"id": task["id"], "progress": inp.get("cid")}) + "\n")
        sys.stdout.flush()
        ins = {name: _tensor(spec) for name, spec in inp["tensors"].items()}

        def fresh():
            return Tensor(allocate_taco_structure(tuple(m.c_int for m in ofmt.modes), tuple(inp["out_dims"]),
                                                  ofmt.ordering))

        def call(kind, out):
            allt = {out_name: out, **ins}
            return fns[kind](*[allt[n].cffi_tensor for n in names])

        rec = {"cid": inp.get("cid"), "rc": [], "evaluate": []}
        o1 = fresh()
        rec["rc"].append(call("evaluate", o1))
        take_ownership_of_arrays(o1.cffi_tensor)
        rec["evaluate"].append(_raw(o1))
        for m in inp.get("maps", []):   # what evaluate yields for the re-valued inputs
            for t in ins.values():
                _apply_map(t, m)
            oe = fresh()
            rec["rc"].append(call("evaluate", oe))
            take_ownership_of_arrays(oe.cffi_tensor)
            rec["evaluate"].append(_raw(oe))
        ins = {name: _tensor(spec) for name, spec in inp["tensors"].items()}   # back to the original values
        o2 = fresh()
        rec["rc"].append(call("assemble", o2))
        rec["assemble"] = {"levels": o2.taco_indices}
        rec["rc"].append(call("compute", o2))
        rec["compute"] = [_raw(o2)]
        for m in inp.get("maps", []):
            for t in ins.values():
                _apply_map(t, m)
            rec["rc"].append(call("compute", o2))
            rec["compute"].append(_raw(o2))
        take_ownership_of_arrays(o2.cffi_tensor)
        outs.append(rec)
    return {"outs": outs}


OPS["history_batch"] = op_history_batch


def op_irfuncs(task):
    """C06(b): print generated IR functions with the REAL ir_to_c / ir_to_llvm, compile both, run them."""
    from cffi import FFI

    from tensora.codegen import ir_to_c, ir_to_llvm
    from tensora.compile._compile_cffi import taco_define_header
    from tensora.compile._compile_llvm import compile_module
    from tensora.ir.ast import Module

    from . import irjson

    sig = "int32_t {name}(int32_t* a, double* fa, int32_t* w, int32_t* iout, double* fout)"
    funcs = task["funcs"]
    fds = []
    for f in funcs:
        img = dict(f["image"])
        body = irjson.dec(img["body"])
        params = [irjson.dec(p) for p in img["parameters"]]
        from tensora.ir.ast import FunctionDefinition, Variable

        fds.append(FunctionDefinition(Variable(f["name"]), params, irjson.dec_type(img["return_type"]), body))
    module = Module(fds)
    tool_errors = []
    # --- C
    clib = None
    ffi = FFI()
    try:
        c_text = ir_to_c(module)
        ffi.cdef("\n".join(sig.format(name=f["name"]) + ";" for f in funcs))
        ffi.set_source("irfuncs_mod", "#include <stdint.h>\n#include <stdlib.h>\n" + taco_define_header + c_text,
                       extra_compile_args=["-Wno-unused-variable", "-O1"])
        import tempfile

        tmp = tempfile.mkdtemp(prefix="irf-", dir=str(irjson.__file__).rsplit("/harness/", 1)[0] + "/.work")
        try:
            path = ffi.compile(tmpdir=tmp)
            clib = ffi.dlopen(path)
        finally:
            import shutil

            shutil.rmtree(tmp, ignore_errors=True)
    except Exception as e:  # noqa: BLE001
        tool_errors.append({"tool": "gcc", "name": funcs[0]["name"], "msg": f"{type(e).__name__}: {e}"[:400]})
    # --- LLVM
    engine = None
    try:
        engine = compile_module(module)
    except Exception as e:  # noqa: BLE001
        tool_errors.append({"tool": "llvm", "name": funcs[0]["name"], "msg": f"{type(e).__name__}: {e}"[:400]})
    results = []
    cast = "int32_t(*)(int32_t*, double*, int32_t*, int32_t*, double*)"
    for f in funcs:
        runs = {}
        for ei in f["envs"]:
            env = task["envs"][ei]
            outs = {}
            for backend in ("c", "llvm"):
                if backend == "c" and clib is None or backend == "llvm" and engine is None:
                    continue
                a = ffi.new("int32_t[]", env["a"])
                fa = ffi.new("double[]", env["fa"])
                w = ffi.new("int32_t[]", [0] * 4)
                iout = ffi.new("int32_t[]", [-777] * 4)
                fout = ffi.new("double[]", [-777.0] * 2)
                fn = getattr(clib, f["name"]) if backend == "c" else ffi.cast(cast, engine.get_function_address(f["name"]))
                ret = fn(a, fa, w, iout, fout)
                outs[backend] = {"ret": ret, "w": list(w), "iout": list(iout), "fout": list(fout)}
            runs[str(ei)] = outs
        results.append({"name": f["name"], "runs": runs})
    return {"results": results, "tool_errors": tool_errors}


OPS["irfuncs"] = op_irfuncs


def op_operator_batch(task):
    """C11: apply the real dunder methods to tensors built from the specification's packed arrays."""
    import operator

    ops = {"+": operator.add, "-": operator.sub, "*": operator.mul, "@": operator.matmul}
    from .kernels import set_capacity

    set_capacity(task.get("cap"))   # outside hook: initial capacity of growable output arrays
    outs = []
    for c in task["cases"]:
        sys.stdout.write("@@" + json.dumps({"id": task["id"], "progress": c["cid"]}) + "\n")
        sys.stdout.flush()
        try:
            def number(o):
                from fractions import Fraction

                v = o["number"]
                return {"int": lambda: int(v), "fraction": lambda: Fraction(v), "bool": lambda: bool(v)}.get(o.get("numtype"), lambda: v)()

            left = number(c["left"]) if "number" in c["left"] else _tensor(c["left"])
            right = number(c["right"]) if "number" in c["right"] else _tensor(c["right"])
            r = ops[c["op"]](left, right)
            outs.append({"cid": c["cid"], "out": _raw(r)})
        except Exception as e:  # noqa: BLE001
            outs.append({"cid": c["cid"], "exc": type(e).__name__, "msg": str(e)[:200]})
    return {"outs": outs}


OPS["operator_batch"] = op_operator_batch


class _EntryRecorder:
    """Wraps the compiled function pointer of a TensorMethod: notes that the kernel was entered."""

    entered = False

    def __init__(self, inner):
        self.inner = inner

    def __call__(self, *a):
        _EntryRecorder.entered = True
        return self.inner(*a)


def op_call_batch(task):
    """C10: replay argument vectors into tensor_method(...)(...) and evaluate(...), recording kernel entry."""
    import tensora
    import tensora.compile._porcelain as porc
    from tensora import Tensor

    from .common import hook_kernel_entry

    hook_kernel_entry(lambda tm, inner: _EntryRecorder(inner))

    def fmt(a):
        return "".join(m + str(o) for m, o in zip(a["modes"], a["ordering"]))

    outs = []
    for c in task["cases"]:
        sys.stdout.write("@@" + json.dumps({"id": task["id"], "progress": c["cid"]}) + "\n")
        sys.stdout.flush()
        def build(a):
            if not a["tensor"]:
                return 3.5
            dims = tuple(a["dims"])
            content = {tuple(0 for _ in dims): 1.0} if all(d >= 1 for d in dims) else {}
            return Tensor.from_dok(content, dimensions=dims, format=fmt(a))

        kwargs = {nm: build(a) for nm, a in c["args"].items()}
        pos = [Tensor.from_dok({}, dimensions=(2,), format="d")] if c["positional"] else []
        from tensora.compile import BackendCompiler, evaluate_cffi

        if c.get("primed"):
            # the call under test comes right after a consistent call of the same (cached) method whose arguments have
            # the same content
            base = {nm: build(a) for nm, a in c["base"].items()}
            try:
                if c["entry"] == "method":
                    tensora.tensor_method(c["text"], c["formats"])(**base)
                elif c["entry"] == "method_cffi":
                    tensora.tensor_method(c["text"], c["formats"], BackendCompiler.cffi)(**base)
                elif c["entry"] == "evaluate_cffi":
                    evaluate_cffi(c["text"], c["output_format"], **base)
                else:
                    tensora.evaluate(c["text"], c["output_format"], **base)
            except Exception:  # noqa: BLE001 - e.g. the documented NoKernelFoundError of evaluate
                pass
        _EntryRecorder.entered = False
        try:

            if c["entry"] == "method":
                fn = tensora.tensor_method(c["text"], c["formats"])
                r = fn(*pos, **kwargs)
            elif c["entry"] == "method_cffi":
                fn = tensora.tensor_method(c["text"], c["formats"], BackendCompiler.cffi)
                r = fn(*pos, **kwargs)
            elif c["entry"] == "evaluate_cffi":
                r = evaluate_cffi(c["text"], c["output_format"], *pos, **kwargs)
            else:
                r = tensora.evaluate(c["text"], c["output_format"], *pos, **kwargs)
            outs.append({"cid": c["cid"], "returned": True, "entered": _EntryRecorder.entered,
                         "result_dims": list(r.dimensions)})
        except Exception as e:  # noqa: BLE001
            outs.append({"cid": c["cid"], "returned": False, "entered": _EntryRecorder.entered,
                         "exc": type(e).__name__, "msg": str(e)[:160]})
    return {"outs": outs}


OPS["call_batch"] = op_call_batch


def _gcc_syntax(c_text: str) -> str | None:
    """gcc -fsyntax-only on emitted C given the published header; returns the error text or None."""
    import subprocess

    from tensora.compile._cffi_ownership import taco_type_header
    from tensora.compile._compile_cffi import taco_define_header

    src = "#include <stdint.h>\n#include <stdlib.h>\n" + taco_define_header + taco_type_header + c_text
    r = subprocess.run(["gcc", "-std=c11", "-fsyntax-only", "-Werror=implicit-function-declaration",
                        "-Wno-unused-variable", "-x", "c", "-"], input=src, capture_output=True, text=True, timeout=60)
    return None if r.returncode == 0 else r.stderr[-600:]


def _llvm_verify(text: str) -> str | None:
    import llvmlite.binding as llvm

    try:
        llvm.parse_assembly(text).verify()
        return None
    except Exception as e:  # noqa: BLE001
        return f"{type(e).__name__}: {e}"[-600:]


def op_generate_batch(task):
    """C08 / C15: run generation requests through the library, the CLI, tensor_method and evaluate."""
    import hashlib
    import time

    from returns.result import Failure, Success
    from typer.testing import CliRunner

    import tensora
    from tensora import Tensor
    from tensora.cli import app
    from tensora.expression import parse_assignment
    from tensora.format import parse_format
    from tensora.generate import Language, generate_code
    from tensora.kernel_type import KernelType
    from tensora.problem import make_problem

    runner = CliRunner()
    outs = []
    for c in task["cases"]:
        sys.stdout.write("@@" + json.dumps({"id": task["id"], "progress": c["cid"]}) + "\n")
        sys.stdout.flush()
        t0 = time.process_time()   # CPU time of this process: a loaded machine must not look like a hang
        rec = {"cid": c["cid"]}
        formats = dict(c["formats"])
        try:
            if c["entry"] in ("library", "cli"):
                a = parse_assignment(c["text"])
                if isinstance(a, Failure):
                    rec["outcome"] = "ParseFailure:" + type(a.failure()).__name__
                else:
                    pr = make_problem(a.unwrap(), {n: parse_format(f).unwrap() for n, f in formats.items()})
                    if isinstance(pr, Failure):
                        rec["outcome"] = "ProblemFailure:" + type(pr.failure()).__name__
                    else:
                        res = generate_code(pr.unwrap(), [KernelType[k] for k in c["kinds"]], Language[c["lang"]])
                        if isinstance(res, Success):
                            text = res.unwrap()
                            rec["outcome"] = "Code"
                            rec["sha"] = hashlib.sha256(text.encode()).hexdigest()
                            if c.get("toolchain", True):
                                rec["tool"] = _gcc_syntax(text) if c["lang"] == "c" else _llvm_verify(text)
                            if c.get("keep_text"):
                                rec["code"] = text
                        else:
                            rec["outcome"] = type(res.failure()).__name__
                        if c["entry"] == "cli":
                            args = [c["text"]]
                            for n, f in formats.items():
                                args += ["-f", f"{n}:{f}"]
                            for k in c["kinds"]:
                                args += ["-t", k]
                            args += ["-l", c["lang"]]
                            r = runner.invoke(app, args)
                            rec["cli_exit"] = r.exit_code
                            rec["cli_exception"] = None if r.exception is None or isinstance(r.exception, SystemExit) \
                                else type(r.exception).__name__
                            out = r.stdout
                            rec["cli_sha"] = hashlib.sha256(out.rstrip("\n").encode()).hexdigest()
                            rec["cli_traceback"] = "Traceback (most recent call last)" in (r.output or "")
                            rec["cli_message"] = (r.output or "")[:120] if r.exit_code != 0 else ""
                            if isinstance(res, Success):
                                rec["cli_matches_library"] = out.rstrip("\n") == res.unwrap().rstrip("\n")
            elif c["entry"] == "method":
                tensora.tensor_method(c["text"], formats)
                rec["outcome"] = "Code"
            elif c["entry"] == "evaluate":
                a = parse_assignment(c["text"]).unwrap()
                target = a.target.name
                orders = a.variable_orders()
                part = a.index_participants()
                inputs = {}
                for n, f in formats.items():
                    if n == target:
                        continue
                    inputs[n] = Tensor.from_dok({}, dimensions=(2,) * orders[n], format=f)
                r = tensora.evaluate(c["text"], formats[target], **inputs)
                rec["outcome"] = "Code"
                rec["result_dims"] = list(r.dimensions)
        except Exception as e:  # noqa: BLE001
            rec["outcome"] = type(e).__name__
            rec["msg"] = str(e)[:200]
        rec["elapsed"] = round(time.process_time() - t0, 3)
        outs.append(rec)
    return {"outs": outs}


OPS["generate_batch"] = op_generate_batch


# ---------------------------------------------------------------------------------------------------------------------
# C14: instrumented concurrency (wrappers applied from outside, at the shared-state touch points)


class _Conc:
    """Recorder + optional deterministic scheduler shared by the wrappers.

    Scheduled mode: a thread that reaches a touch point parks until the scheduler grants it the next step.  A granted
    thread that does not reach its next point within a short time is blocked natively (e.g. on the compile lock held
    by a parked thread); the scheduler then simply goes on with the next entry of the schedule.
    """

    def __init__(self):
        import threading

        self.tl = threading.local()
        self.rec_lock = threading.Lock()
        self.cond = threading.Condition()
        self.events = []
        self.mode = "free"
        self.state = {}     # tid -> "running" | "parked" | "done"
        self.granted = {}

    def tid(self):
        return getattr(self.tl, "tid", None)

    def point(self, label, **kw):
        t = self.tid()
        if t is None:
            return
        with self.rec_lock:
            self.events.append({"ev": label, "t": t, **kw})
        if self.mode == "sched":
            with self.cond:
                self.state[t] = "parked"
                self.cond.notify_all()
                while not self.granted.get(t):
                    self.cond.wait()
                self.granted[t] = False
                self.state[t] = "running"

    def finish(self, t):
        with self.cond:
            self.state[t] = "done"
            self.cond.notify_all()


_conc = None


def _install_conc():
    """Replace module attributes of the tree under test by recording wrappers (idempotent)."""
    global _conc
    if _conc is not None:
        return _conc
    import tensora.compile._compile_cffi as ccffi
    import tensora.compile._porcelain as porc
    import tensora.compile._tensor_method as tmod

    C = _conc = _Conc()
    orig_cached = porc.cachable_tensor_method

    def cached(problem, backend):
        C.point("lookup")
        C.tl.compiled = False
        r = orig_cached(problem, backend)
        if C.tl.compiled:
            C.point("insert")
        return r

    cached.cache_clear = orig_cached.cache_clear
    cached.cache_info = orig_cached.cache_info
    porc.cachable_tensor_method = cached

    orig_init = tmod.TensorMethod.__init__

    def init(self, problem, backend=tmod.BackendCompiler.llvm):
        C.point("compile")
        orig_init(self, problem, backend)
        C.tl.compiled = True
        C.point("jit", kid=id(self))

    def entry(me, inner):
        def wrapped(*a):
            C.point("enter", kid=id(me), sid=id(a[0]))
            r = inner(*a)
            C.point("exit")
            return r

        return wrapped

    from .common import hook_kernel_entry

    hook_kernel_entry(entry)

    tmod.TensorMethod.__init__ = init

    # the critical section itself (FFI.compile is not thread safe), observed independently of how it is protected:
    # "lock" = a thread is inside FFI.compile, "unlock" = it has left
    import cffi

    orig_compile = cffi.FFI.compile

    def compile_(self, *a, **kw):
        C.point("lock")
        try:
            return orig_compile(self, *a, **kw)
        finally:
            C.point("unlock")

    cffi.FFI.compile = compile_

    # every read of an argument's dimensions during validation is a touch point too (a yield point for the scheduler;
    # these events are not part of the model and are dropped before trace validation)
    import tensora.tensor as ttensor

    orig_dims = ttensor.Tensor.dimensions

    def dims(self):
        C.point("dims")
        return orig_dims.fget(self)

    ttensor.Tensor.dimensions = property(dims)

    orig_alloc = tmod.allocate_taco_structure

    def alloc(*a, **kw):
        r = orig_alloc(*a, **kw)
        C.point("alloc", sid=id(r))
        return r

    tmod.allocate_taco_structure = alloc
    orig_own = tmod.take_ownership_of_arrays

    def own(t):
        C.point("own", sid=id(t))
        return orig_own(t)

    tmod.take_ownership_of_arrays = own
    return C


def _conc_inputs(req):
    return {n: _tensor(spec) for n, spec in req["inputs"].items()}


def _conc_call(req):
    from tensora.compile import _porcelain as porc

    if "operator" in req:
        import operator as _op

        o = req["operator"]
        left = _tensor(o["left"]) if isinstance(o["left"], dict) else o["left"]
        right = _tensor(o["right"]) if isinstance(o["right"], dict) else o["right"]
        return {"+": _op.add, "-": _op.sub, "*": _op.mul, "@": _op.matmul}[o["op"]](left, right)

    fn = porc.evaluate_cffi if req["backend"] == "cffi" else porc.evaluate_tensora
    return fn(req["text"], req["output_format"], **_conc_inputs(req))


def op_concurrency(task):
    """Runs rounds of concurrent evaluate calls: free-running (events recorded) or under a given schedule."""
    import sys as _sys
    import threading

    import tensora.compile._porcelain as porc

    C = _install_conc()
    reqs = task["requests"]          # name -> request
    alone = {}
    C.mode = "free"
    for name, rq in reqs.items():    # sequential reference results (the recorder ignores threads without a tid)
        alone[name] = _raw(_conc_call(rq))
    _sys.setswitchinterval(1e-6)
    rounds_out = []
    patience = task.get("patience", 1)   # multiplies every wall-clock limit (a round is re-run with more patience before a hang is reported)
    for rnd in task["rounds"]:
        sys.stdout.write("@@" + json.dumps({"id": task["id"], "progress": rnd["rid"]}) + "\n")
        sys.stdout.flush()
        porc.cachable_tensor_method.cache_clear()
        for name in rnd.get("warm", []):
            _conc_call(reqs[name])
        C.events = []
        C.done = set()
        threads = rnd["threads"]     # list of [tid, request name]
        results, errors, keep = {}, {}, []

        def body(tid, name):
            C.tl.tid = tid
            if C.mode == "sched":
                C.point("start")
            try:
                r = _conc_call(reqs[name])
                keep.append(r)
                raw = _raw(r)
                results[tid] = raw
                C.point("ret", same=(raw == alone[name]))
            except Exception as e:  # noqa: BLE001
                errors[tid] = f"{type(e).__name__}: {e}"[:200]
            finally:
                C.finish(tid)

        import time as _time

        hung = False
        if rnd.get("hammer"):
            # many overlapping calls of (mostly) cached kernels with a tiny switch interval and no recording: only the
            # results are compared with the sequential ones
            C.mode = "free"
            n = rnd["hammer"]
            bad = []

            def hbody(tid, name):
                try:
                    for _ in range(n):
                        r = _conc_call(reqs[name])
                        if _raw(r) != alone[name]:
                            bad.append((tid, name))
                            break
                    results[tid] = alone[name] if not any(b[0] == tid for b in bad) else None
                except Exception as e:  # noqa: BLE001
                    errors[tid] = f"{type(e).__name__}: {e}"[:200]

            barrier = threading.Barrier(len(threads))
            ths = [threading.Thread(target=lambda tid=tid, name=name: (barrier.wait(), hbody(tid, name))) for tid, name in threads]
            for t in ths:
                t.start()
            for t in ths:
                t.join(timeout=300 * patience)
            hung = any(t.is_alive() for t in ths)
        elif rnd.get("schedule") is None:
            C.mode = "free"
            barrier = threading.Barrier(len(threads))
            ths = [threading.Thread(target=lambda tid=tid, name=name: (barrier.wait(), body(tid, name))) for tid, name in threads]
            for t in ths:
                t.start()
            for t in ths:
                t.join(timeout=180 * patience)
            hung = any(t.is_alive() for t in ths)
        else:
            C.mode = "sched"
            C.state = {tid: "running" for tid, _ in threads}
            C.granted = {tid: False for tid, _ in threads}
            ths = [threading.Thread(target=body, args=(tid, name)) for tid, name in threads]
            for t in ths:
                t.start()
            order = list(rnd["schedule"])
            tids = [tid for tid, _ in threads]
            last_progress = _time.time()
            rr = 0
            with C.cond:
                while any(C.state[t] != "done" for t in tids):
                    parked = [t for t in tids if C.state[t] == "parked"]
                    if not parked:
                        C.cond.wait(timeout=0.5)       # somebody is running (or blocked natively): wait for a change
                        if _time.time() - last_progress > 90 * patience:
                            hung = True
                            break
                        continue
                    nxt = None
                    while order:
                        cand = order.pop(0)
                        if C.state.get(cand) == "parked":
                            nxt = cand
                            break
                    if nxt is None:
                        nxt = parked[rr % len(parked)]
                        rr += 1
                    C.granted[nxt] = True
                    C.state[nxt] = "running"
                    C.cond.notify_all()
                    last_progress = _time.time()
                    # let it run to its next touch point; if it blocks natively, go on with the others
                    C.cond.wait_for(lambda n=nxt: C.state[n] in ("parked", "done"), timeout=0.4)
            C.mode = "free"
            with C.cond:
                for t in tids:
                    C.granted[t] = True
                C.cond.notify_all()
            for t in ths:
                t.join(timeout=20)
            hung = hung or any(t.is_alive() for t in ths)
        rounds_out.append({"rid": rnd["rid"], "events": [e for e in C.events if e["ev"] not in ("start", "dims")], "ndims": sum(1 for e in C.events if e["ev"] == "dims"),
                           "same": {str(tid): results.get(tid) == alone[name] for tid, name in threads},
                           "errors": {str(k): v for k, v in errors.items()}, "hung": hung})
        keep.clear()
    return {"rounds": rounds_out}


OPS["concurrency"] = op_concurrency


def op_pair_batch(task):
    """C07: the unoptimised and the optimised module of one request, both LLVM-compiled, on the same (arbitrary finite
    double) inputs; outputs must be numerically equal (the sign of zero may differ)."""
    from tensora import Tensor
    from tensora.compile import allocate_taco_structure, take_ownership_of_arrays, tensor_cdefs
    from tensora.compile._compile_llvm import compile_module

    from . import kernels

    try:
        problem = kernels.make_problem(task["text"], task["formats"])
        engines = {opt: compile_module(kernels.generate_module(problem, ["evaluate"], cap=task.get("cap"), optimize=opt))
                   for opt in (False, True)}
    except Exception as e:  # noqa: BLE001
        return {"compile_exc": type(e).__name__, "msg": str(e)[:300]}
    names = list(problem.formats.keys())
    sig = f"int32_t (*)({', '.join(['void *'] * len(names))})"
    fns = {opt: tensor_cdefs.cast(sig, eng.get_function_address("evaluate")) for opt, eng in engines.items()}
    out_name = problem.assignment.target.name
    ofmt = problem.formats[out_name]
    outs = []
    for inp in task["inputs"]:
        sys.stdout.write("@@" + json.dumps({"id": task["id"], "progress": inp.get("cid")}) + "\n")
        sys.stdout.flush()
        ins = {name: _tensor(spec) for name, spec in inp["tensors"].items()}
        res = {}
        for opt in (False, True):
            o = Tensor(allocate_taco_structure(tuple(m.c_int for m in ofmt.modes), tuple(inp["out_dims"]), ofmt.ordering))
            allt = {out_name: o, **ins}
            rc = fns[opt](*[allt[n].cffi_tensor for n in names])
            take_ownership_of_arrays(o.cffi_tensor)
            res[opt] = {"rc": rc, **_raw(o)}
        same = (res[False]["rc"] == res[True]["rc"] and res[False]["levels"] == res[True]["levels"]
                and len(res[False]["vals"]) == len(res[True]["vals"])
                and all(a == b for a, b in zip(res[False]["vals"], res[True]["vals"])))
        outs.append({"cid": inp.get("cid"), "same": same, "unoptimised": res[False], "optimised": res[True]})
    return {"outs": outs}


OPS["pair_batch"] = op_pair_batch
