"""Further native operations, registered into native_worker.OPS by the check modules' helpers."""
from __future__ import annotations

from .native_worker import OPS  # noqa: F401
