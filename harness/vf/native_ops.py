"""Native operations executed inside the sacrificial workers (vf.native_worker)."""
from __future__ import annotations

import json
import sys

from .common import use_repo

use_repo()


def _tensor(spec):
    """{"fmt": {"modes","ordering"}, "dims": [...], "levels": [[]|[pos,crd]], "vals": [...]} -> Tensor (raw arrays)."""
    from tensora import Tensor
    from tensora.compile import taco_structure_to_cffi

    modes = tuple(0 if m == "d" else 1 for m in spec["fmt"]["modes"])
    cffi_t = taco_structure_to_cffi(
        [list(map(list, lv)) for lv in spec["levels"]],
        [float(v) for v in spec["vals"]],
        mode_types=modes,
        dimensions=tuple(spec["dims"]),
        mode_ordering=tuple(spec["fmt"]["ordering"]),
    )
    return Tensor(cffi_t)


def _raw(t):
    return {"dims": list(t.dimensions), "levels": t.taco_indices, "vals": t.taco_vals,
            "modes": [m.character for m in t.modes], "ordering": list(t.mode_ordering)}


def op_eval_batch(task):
    """Run one kernel (through tensor_method, the path evaluate uses) on many input sets."""
    from tensora import tensor_method
    from tensora.compile import BackendCompiler

    from .kernels import set_capacity

    set_capacity(task.get("cap"))
    backend = BackendCompiler[task.get("backend", "llvm")]
    try:
        fn = tensor_method(task["text"], task["formats"], backend)
    except Exception as e:  # noqa: BLE001
        return {"compile_exc": type(e).__name__, "msg": str(e)[:300]}
    outs = []
    for inp in task["inputs"]:
        sys.stdout.write("@@" + json.dumps({"id": task["id"], "progress": inp.get("cid")}) + "\n")
        sys.stdout.flush()
        try:
            args = {name: _tensor(spec) for name, spec in inp["tensors"].items()}
            out = fn(**args)
            outs.append({"cid": inp.get("cid"), "out": _raw(out)})
        except Exception as e:  # noqa: BLE001
            outs.append({"cid": inp.get("cid"), "exc": type(e).__name__, "msg": str(e)[:300]})
    return {"outs": outs}


OPS = {"eval_batch": op_eval_batch}




def _apply_map(tensor, m):
    """Re-value an input tensor in place (same structure): the caller-side counterpart of KernelRun!Revalue."""
    from tensora.compile import tensor_cdefs

    n = len(tensor.taco_vals)
    vals = tensor_cdefs.cast("double*", tensor.cffi_tensor.vals)
    for i in range(n):
        vals[i] = {"zero": 0.0, "triple": vals[i] * 3.0, "negate": -vals[i], "half": vals[i] * 0.5}[m]


def op_history_batch(task):
    """C04: assemble / compute / evaluate of ONE generated module, called in the history's order on real
    taco_tensor_t structures (LLVM JIT of the module the CLI would print)."""
    from tensora.compile import allocate_taco_structure, take_ownership_of_arrays, tensor_cdefs
    from tensora.compile._compile_llvm import compile_module
    from tensora import Tensor

    from . import kernels

    try:
        problem = kernels.make_problem(task["text"], task["formats"])
        module = kernels.generate_module(problem, ["assemble", "compute", "evaluate"], cap=task.get("cap"))
        engine = compile_module(module)
    except Exception as e:  # noqa: BLE001
        return {"compile_exc": type(e).__name__, "msg": str(e)[:300]}
    names = list(problem.formats.keys())
    sig = f"int32_t (*)({', '.join(['void *'] * len(names))})"
    fns = {k: tensor_cdefs.cast(sig, engine.get_function_address(k)) for k in ("assemble", "compute", "evaluate")}
    out_name = problem.assignment.target.name
    ofmt = problem.formats[out_name]
    outs = []
    import json
    import sys

    for inp in task["inputs"]:
        sys.stdout.write("@@" + json.dumps({"id": task["id"], "progress": inp.get("cid")}) + "\n")
        sys.stdout.flush()
        ins = {name: _tensor(spec) for name, spec in inp["tensors"].items()}

        def fresh():
            return Tensor(allocate_taco_structure(tuple(m.c_int for m in ofmt.modes), tuple(inp["out_dims"]),
                                                  ofmt.ordering))

        def call(kind, out):
            allt = {out_name: out, **ins}
            return fns[kind](*[allt[n].cffi_tensor for n in names])

        rec = {"cid": inp.get("cid"), "rc": []}
        o1 = fresh()
        rec["rc"].append(call("evaluate", o1))
        take_ownership_of_arrays(o1.cffi_tensor)
        rec["evaluate"] = _raw(o1)
        o2 = fresh()
        rec["rc"].append(call("assemble", o2))
        rec["assemble"] = {"levels": o2.taco_indices}
        rec["rc"].append(call("compute", o2))
        rec["compute"] = [_raw(o2)]
        for m in inp.get("maps", []):
            for t in ins.values():
                _apply_map(t, m)
            rec["rc"].append(call("compute", o2))
            rec["compute"].append(_raw(o2))
        take_ownership_of_arrays(o2.cffi_tensor)
        outs.append(rec)
    return {"outs": outs}


OPS["history_batch"] = op_history_batch
