"""Running TLC and reading what it says."""
from __future__ import annotations

import json
import os
import re
import shutil
import subprocess
import tempfile
from dataclasses import dataclass, field
from pathlib import Path

from .common import SPEC, WORK

JAR = "/opt/veriftools/tla/tla2tools.jar:/opt/veriftools/tla/CommunityModules-deps.jar"


class MachineryError(Exception):
    """The verification machinery itself failed (TLC error, missing verdicts...): exit 2, never a VIOLATION."""


@dataclass
class TlcResult:
    lines: list = field(default_factory=list)  # decoded @@ records
    generated: int = 0
    distinct: int = 0
    depth: int = 0
    wall: float = 0.0
    ok: bool = False  # "Model checking completed. No error has been found."
    violated: list = field(default_factory=list)  # names of violated invariants / properties
    raw: str = ""
    coverage: dict = field(default_factory=dict)  # action name -> count


_STATES = re.compile(r"(\d+) states generated, (\d+) distinct states found")
_DEPTH = re.compile(r"depth of the complete state graph search is (\d+)")
_COV = re.compile(r"^<(\w+) line \d+, col \d+ to line \d+, col \d+ of module (\w+)>: (\d+):(\d+)")


def workdir(tag: str) -> Path:
    WORK.mkdir(parents=True, exist_ok=True)
    return Path(tempfile.mkdtemp(prefix=tag + "-", dir=WORK))


def run_tlc(module: str, cfg: str, *, env: dict | None = None, workers: int = 16, timeout: int = 1800,
            simulate: str | None = None, depth: int | None = None, coverage: bool = False,
            seed: int | None = None, extra: list | None = None, heap: str = "6g", deque: bool = False,
            deadlock: bool = False, allow_fail: bool = False) -> TlcResult:
    """Run TLC on spec/<module>.tla with spec/<cfg>. Returns parsed result; raises MachineryError on a TLC crash."""
    import time

    meta = workdir("tlc")
    cmd = ["java", "-XX:+UseParallelGC", f"-Xmx{heap}"]
    if deque:
        cmd.append("-Dtlc2.tool.queue.IStateQueue=StateDeque")
    cmd += ["-cp", JAR, "tlc2.TLC", "-workers", str(workers), "-metadir", str(meta), "-noGenerateSpecTE",
            "-config", cfg]
    if not deadlock:
        pass
    if simulate is not None:
        cmd += ["-simulate", simulate]
    if depth is not None:
        cmd += ["-depth", str(depth)]
    if coverage:
        cmd += ["-coverage", "1"]
    if seed is not None:
        cmd += ["-seed", str(seed)]
    if extra:
        cmd += extra
    cmd.append(module + ".tla")
    e = dict(os.environ)
    e.update({k: str(v) for k, v in (env or {}).items()})
    t0 = time.time()
    try:
        p = subprocess.run(cmd, cwd=SPEC, env=e, capture_output=True, text=True, timeout=timeout)
        out = p.stdout + p.stderr
    except subprocess.TimeoutExpired as ex:
        out = (ex.stdout or b"").decode(errors="replace") if isinstance(ex.stdout, bytes) else (ex.stdout or "")
        shutil.rmtree(meta, ignore_errors=True)
        if simulate is None:
            raise MachineryError(f"TLC timed out after {timeout}s on {module}/{cfg}")
        p = None
    shutil.rmtree(meta, ignore_errors=True)
    r = TlcResult(raw=out, wall=time.time() - t0)
    for line in out.splitlines():
        if line.startswith('"@@'):
            try:
                r.lines.append(json.loads(json.loads(line)[2:]))
            except Exception as ex:  # noqa: BLE001
                raise MachineryError(f"undecodable verdict line: {line[:200]} ({ex})") from ex
        else:
            m = _STATES.search(line)
            if m:
                r.generated, r.distinct = int(m.group(1)), int(m.group(2))
            m = _DEPTH.search(line)
            if m:
                r.depth = int(m.group(1))
            m = _COV.match(line)
            if m:
                r.coverage[m.group(1)] = r.coverage.get(m.group(1), 0) + int(m.group(4))
            if line.startswith("Error: Invariant ") and line.endswith(" is violated."):
                r.violated.append(line[len("Error: Invariant "):-len(" is violated.")])
            if "is violated" in line and "Error: Action property" in line:
                r.violated.append(line)
    r.ok = "No error has been found" in out or (simulate is not None and "Error:" not in out)
    if not r.ok and not r.violated and not (allow_fail and r.lines):
        plain = [l for l in out.splitlines() if not l.startswith('"@@')]
        errs = [l for i, l in enumerate(plain) if l.startswith("Error:") or (i > 0 and plain[i - 1].startswith("Error:"))]
        tail = "\n".join(plain)[-1500:]
        raise MachineryError(f"TLC failed on {module}/{cfg}:\n" + "\n".join(errs[:12]) + "\n...\n" + tail)
    return r


def sany(module: str) -> bool:
    p = subprocess.run(["java", "-cp", JAR, "tla2sany.SANY", module + ".tla"], cwd=SPEC, capture_output=True, text=True)
    return "Semantic errors" not in p.stdout and "***Parse Error***" not in p.stdout and p.returncode == 0
