"""The central pipeline (DESIGN section 2): requests -> real IR -> IRMachine (TLC) -> native replay -> trace validation.

One exploration serves C01, C02, C03, C05 and C06(a); the result is cached per (source hash, tier, seed), so the
five checks run back to back share it, and any edit under $VERIF_REPO/src invalidates it.
"""
from __future__ import annotations

import itertools
import json
import random
from pathlib import Path

from . import exprs, kernels
from .catalogue import BROADCAST_TARGET, CATALOGUE
from .common import WORK, Timer, dump, dyadic, garbage, machinery_hash, seed, source_hash, tier, undyadic
from .native import Pool
from .tlc import MachineryError, run_tlc, workdir

DEFAULT_CAP = None  # tensora's own 1024*1024

PARAMS = {
    "quick": dict(formats_per_assignment=4, tries=60, inputs=7, caps=[1, 2], c_fraction=4, wide_inputs=24,
                  gen_kernels=20, random_assignments=40, random_kernels=40, float_fraction=2),
    "thorough": dict(formats_per_assignment=12, tries=300, inputs=10, caps=[1, 2, 3, DEFAULT_CAP], c_fraction=2,
                     wide_inputs=40, gen_kernels=100, random_assignments=300, random_kernels=250, float_fraction=1),
}


def format_choices(asg, rng: random.Random, want: int, tries: int):
    """Yield format assignments (name -> format string): all-dense, all-compressed, then seeded random ones whose
    TARGET cycles through every dense/compressed pattern (so that each pattern of the output is met across a
    handful of choices) with random mode orderings; the other tensors are drawn uniformly."""
    orders = exprs.tensor_orders(asg)
    names = list(orders)
    target = asg["target"]
    per = {n: kernels.all_formats(orders[n]) for n in names}
    seen = set()

    def nat(ch):
        return {n: "".join(ch + str(i) for i in range(orders[n])) for n in names}

    for fm in (nat("d"), nat("s")):
        key = tuple(fm.values())
        if key not in seen:
            seen.add(key)
            yield fm
    patterns = ["".join(p) for p in itertools.product("ds", repeat=orders[target])]
    rng.shuffle(patterns)
    by_pattern = {p: [f for f in per[target] if "".join(c for c in f if c in "ds") == p] for p in patterns}
    for t in range(tries):
        pat = patterns[t % len(patterns)]
        combo = {n: (rng.choice(by_pattern[pat]) if n == target else rng.choice(per[n])) for n in names}
        key = tuple(combo.values())
        if key in seen:
            continue
        seen.add(key)
        yield combo


def has_sparse_output(k: kernels.Kernel) -> bool:
    return "s" in k.formats[k.asg["target"]]


def input_sets(asg, rng: random.Random, n: int):
    """(dims, content) pairs: empty / full / singleton patterns first, zero-sized and unit dimensions included."""
    out = []
    # the last plan: larger dimensions (4..7) holding a few entries only - coordinates, strides and position counts beyond
    # what sizes 0..3 can show, at a bounded number of machine steps
    plans = [("full", (2, 3)), ("empty", (2, 3)), ("one", (2, 3)), (None, (0, 1, 2)), (None, (1,)), (None, (2, 2, 3)),
             ("few", (4, 5, 7))]
    big = max(len(lf["idx"]) for lf in exprs.leaves(asg["rhs"])) >= 4 if exprs.leaves(asg["rhs"]) else False
    for i in range(n):
        pat, sizes = plans[i] if i < len(plans) else (None, (0, 1, 2, 2, 3, 3))
        if big:
            sizes = tuple(min(x, 2) for x in sizes) if pat != "few" else (2, 3)   # order-4 operands: small dimensions
        dims = kernels.choose_dims(asg, rng, sizes)
        out.append((dims, kernels.sample_content(asg, dims, rng, pat)))
    return out


def _spec_tensor(fmt: str, dims_t: list, packed: dict) -> dict:
    return {"fmt": kernels.fmt_record(fmt), "dims": dims_t,
            "levels": packed["levels"], "vals": [undyadic(v) for v in packed["vals"]]}


def _py_pack(content: list, fmt: dict, dims_t: list) -> dict:
    """Harness-side packing, used only to feed the WIDE native pass (its inputs are re-validated by the spec:
    the observe cases carry the abstract content, and TLC re-packs it to compute support)."""
    modes, ordering = fmt["modes"], fmt["ordering"]
    n = len(modes)
    lv = {tuple(c[ordering[l]] for l in range(n)): v for c, v in content}
    levels = []
    parents = [()]
    for l in range(n):
        d = dims_t[ordering[l]]
        if modes[l] == "d":
            parents = [p + (k,) for p in parents for k in range(d)]
            levels.append([])
        else:
            pos, crd, new = [0], [], []
            for p in parents:
                ch = sorted({q[: l + 1] for q in lv if q[:l] == p})
                crd += [q[l] for q in ch]
                new += ch
                pos.append(len(crd))
            parents = new
            levels.append([pos, crd])
    return {"levels": levels, "vals": [undyadic(lv[p]) if p in lv else 0.0 for p in parents]}


def same_levels(a, b) -> bool:
    return [list(map(list, x)) for x in a] == [list(map(list, x)) for x in b]


def same_vals(native: list, model: list) -> bool:
    return len(native) == len(model) and all(float(x) == undyadic(m) for x, m in zip(native, model))


class Result(dict):
    pass


def machine_run(programs: list, cases: list, kernel_of: dict, prog_of_kernel: dict, d: Path, tag: str, chunk: int = 300):
    """Run cases on KernelRun.tla in chunks of kernels (each case runs the evaluate program of one kernel), so that
    the JSON constants stay small in the thorough tier.  Returns (all verdict lines, states, transitions, depth)."""
    kernels_sorted = sorted({kernel_of[c["id"]] for c in cases})
    lines, st, tr, depth = [], 0, 0, 0
    for lo in range(0, len(kernels_sorted), chunk):
        ks = kernels_sorted[lo:lo + chunk]
        local = {ki: i + 1 for i, ki in enumerate(ks)}
        progs = [programs[prog_of_kernel[ki] - 1] for ki in ks]
        sub = []
        for c in cases:
            ki = kernel_of[c["id"]]
            if ki not in local:
                continue
            cc = dict(c)
            cc["script"] = [dict(op, prog=local[ki]) if op.get("op") == "run" else op for op in c["script"]]
            sub.append(cc)
        dump(progs, d / f"{tag}-progs.json")
        dump(sub, d / f"{tag}-cases.json")
        r = run_tlc("KernelRun", "KernelRun.cfg", env={"VF_PROGS": d / f"{tag}-progs.json", "VF_CASES": d / f"{tag}-cases.json"},
                    timeout=7200)
        lines += r.lines
        st += r.distinct
        tr += r.generated
        depth = max(depth, r.depth)
    return lines, st, tr, depth


def cache_path(t: str, s: int) -> Path:
    return WORK / "cache" / (source_hash() + "-" + machinery_hash()) / t / f"pipeline-{s}.json"


def run(t: str | None = None, s: int | None = None, *, use_cache: bool = True) -> Result:
    t = t or tier()
    s = seed() if s is None else s
    cp = cache_path(t, s)
    if use_cache and cp.exists():
        return Result(json.loads(cp.read_text()))
    res = _run(t, s)
    dump(res, cp)
    return res


def _run(t: str, s: int) -> Result:
    P = PARAMS[t]
    timer = Timer()
    rng = random.Random(1000003 * s + 17)
    programs: list = []
    cases: list = []
    meta: dict = {}
    kernel_list: list = []  # (Kernel, cap, group, native_ok)

    # ---- stage 0: requests -> real IR ------------------------------------------------------------------------------
    skipped = 0
    extra = []
    try:
        from .checks import c08

        rp = c08.gen(dict(pool='{"b", "c", "d"}', idx='{"i", "j", "k", "l"}', order=2, leaves=5, lits="TRUE", entries='{"library"}',
                          allkinds="FALSE", diag="FALSE", spells="{0}", simulate=P["random_assignments"]), s)
        texts = []
        for l in rp.lines:
            if l["text"] not in texts:
                texts.append(l["text"])
        rng.shuffle(texts)
        for text in texts:
            asg_ = exprs.parse(text)
            if exprs.has_diagonal(asg_) or exprs.broadcast_target(asg_) or exprs.shape_tags(asg_):
                continue
            extra.append(("spec-generated", text))
            if len(extra) >= P["random_kernels"]:
                break
    except MachineryError:
        raise
    for group, text in CATALOGUE + BROADCAST_TARGET + extra:
        asg = exprs.parse(text)
        got = 0
        # small format spaces are taken whole: every format assignment when there are at most 16 (64 for the
        # two-tensor shapes of the copy / transpose / literal groups, thorough: 64 / 512 for everything)
        orders_ = exprs.tensor_orders(asg)
        space = 1
        for n_ in orders_:
            space *= len(kernels.all_formats(orders_[n_]))
        limit = (64 if group in ("copy", "transpose", "literal") and len(orders_) == 2 else 16) if t == "quick" else \
                (512 if len(orders_) <= 2 else 64)
        whole = space <= limit and group != "spec-generated"
        if whole:
            names_ = list(orders_)
            choices = [dict(zip(names_, combo)) for combo in itertools.product(*[kernels.all_formats(orders_[n_]) for n_ in names_])]
        else:
            choices = format_choices(asg, rng, P["formats_per_assignment"], P["tries"])
        for fm in choices:
            if not whole and got >= (2 if group == "spec-generated" else P["formats_per_assignment"]):
                break
            probe = kernels.compile_kernel(text, fm, ["evaluate"], [], cap=2)
            if probe.error:
                skipped += 1
                continue
            got += 1
            caps = P["caps"] if has_sparse_output(probe) else [2]
            if t == "quick" and len(caps) > 1:
                caps = [caps[(got + len(kernel_list)) % len(caps)]] if got % 2 else caps[:1]
            elif len(caps) > 2:
                # thorough: capacity 1 always, plus one of the others in rotation
                caps = [caps[0], caps[1 + (got + len(kernel_list)) % (len(caps) - 1)]]
            for cap in caps:
                k = kernels.compile_kernel(text, fm, ["evaluate"], programs, cap=cap)
                kernel_list.append((k, cap, group))

    # structure witnesses: the real generate_subgraphs / is_sparse are compared with spec/Structure.tla; a deviation is
    # not a violation by itself - the request exercising it joins the kernels judged below (every input pattern, A2)
    from . import structure_conf

    sdevs, s_r, s_n = structure_conf.check_subgraphs(t)
    xdevs, x_r, x_n = structure_conf.check_sparse(t)
    witness_first = len(kernel_list)
    for text, fm in structure_conf.witness_requests(sdevs) + structure_conf.witness_requests(xdevs):
        probe = kernels.compile_kernel(text, fm, ["evaluate"], [], cap=1)
        if probe.error:
            continue
        for cap in ([1, 2] if has_sparse_output(probe) else [2]):
            kernel_list.append((kernels.compile_kernel(text, fm, ["evaluate"], programs, cap=cap), cap, "structure-witness"))
    witness_kernels = list(range(witness_first, len(kernel_list)))
    structure = {"subgraph_lattices_compared": s_n, "subgraph_deviations": len(sdevs), "is_sparse_compared": x_n,
                 "is_sparse_deviations": len(xdevs), "witness_kernels": len(witness_kernels),
                 "first_deviations": [dv["what"][:300] for dv in (sdevs[:3] + xdevs[:3])],
                 "states": s_r.distinct + x_r.distinct, "transitions": s_r.generated + x_r.generated}

    # target sweep: every format of the target (all modes x orderings) against natural input formats for copy-like shapes
    from . import kset

    # quick: two operand formats (a compressed level below a compressed one / below a dense one, whose fibres may be empty)
    sweep_inputs = {"d0s1s2", "d0d1s2"} if t == "quick" else None
    for text, fm in list(kset.target_sweep()) + list(kset.target_sweep4()):
        if t == "quick" and "l)" not in text and (text != "a(i,j,k) = b(i,j,k)" or fm["b"] not in sweep_inputs):
            continue
        probe = kernels.compile_kernel(text, fm, ["evaluate"], [], cap=1)
        if probe.error:
            continue
        kernel_list.append((kernels.compile_kernel(text, fm, ["evaluate"], programs, cap=1), 1, "target-sweep"))

    # ---- stage A: every kernel x inputs on the abstract machine ---------------------------------------------------
    for ki, (k, cap, group) in enumerate(kernel_list):
        for dims, content in input_sets(k.asg, rng, P["inputs"]):
            cid = len(cases) + 1
            cases.append(kernels.base_case(k, cid, [dims], [content], kernels.single_script(k.progs["evaluate"]),
                                           "single"))
            meta[cid] = {"kernel": ki, "text": k.text, "formats": k.formats, "cap": cap, "group": group,
                         "dims": dims, "stage": "machine"}
    d = workdir("pipe")
    prog_of_kernel = {ki: k.progs["evaluate"] for ki, (k, cap, group) in enumerate(kernel_list)}
    kernel_of = {cid: m["kernel"] for cid, m in meta.items()}
    a_lines, a_states, a_trans, a_depth = machine_run(programs, cases, kernel_of, prog_of_kernel, d, "a")
    if len(a_lines) != len(cases):
        raise MachineryError(f"machine stage: {len(a_lines)} verdicts for {len(cases)} cases")

    class _RA:
        lines, distinct, generated, depth, coverage = a_lines, a_states, a_trans, a_depth, {}

    ra = _RA
    lines = {l["case"]: l for l in ra.lines}
    states_gen = trans_gen = 0

    # ---- stage A2: for a few small kernels TLC itself chooses the stored subset of every input (all 2^cells patterns) --
    gen_cases, gen_expected = [], 0
    order = list(range(len(kernel_list)))
    rng.shuffle(order)
    order = witness_kernels + [ki for ki in order if ki not in set(witness_kernels)]
    GEN_VALUES = [1, 0, 2, 3, -1, 0.5, 4, 2]
    for ki in order:
        if len(gen_cases) >= P["gen_kernels"] + len(witness_kernels):
            break
        k, cap, group = kernel_list[ki]
        if group in ("broadcast-target", "big-literal", "inexact-literal"):
            continue
        fu = exprs.first_use(k.asg)
        cls = exprs.index_classes(k.asg)
        dims = {i: 2 for i in cls}
        def ncells(dm):
            return sum(len(kernels.cells_of([dm[i] for i in fu[nm]])) for nm in fu)
        for i in sorted(dims, reverse=True):
            if ncells(dims) <= 8:
                break
            for j in dims:
                if cls[j] == cls[i]:
                    dims[j] = 1
        if ncells(dims) > 8 or ncells(dims) == 0:
            continue
        gen = {}
        for nm in fu:
            cells = kernels.cells_of([dims[i] for i in fu[nm]])
            gen[nm] = {"cells": [list(c) for c in cells], "vals": [dyadic(GEN_VALUES[j % len(GEN_VALUES)]) for j in range(len(cells))]}
        gid = len(gen_cases) + 1
        c = kernels.base_case(k, gid, [dims], [{}], [{"op": "load", "val": 0, "dims": 1},
                                                      {"op": "run", "prog": k.progs["evaluate"], "track": False},
                                                      {"op": "snap", "vals": True}], "single")
        c["gen"] = dict(gen, _={"cells": [], "vals": []})
        c["_kernel"] = ki
        c["_dims"] = dims
        gen_cases.append(c)
        gen_expected += 2 ** ncells(dims)
    if gen_cases:
        gen_clean = [{k_: v_ for k_, v_ in c.items() if not k_.startswith("_")} for c in gen_cases]
        g_lines, g_st, g_tr, _ = machine_run(programs, gen_clean, {c["id"]: c["_kernel"] for c in gen_cases}, prog_of_kernel, d, "g")
        if len(g_lines) != gen_expected:
            raise MachineryError(f"machine stage (TLC-chosen inputs): {len(g_lines)} verdicts, {gen_expected} expected")

        class rg:
            lines, distinct, generated = g_lines, g_st, g_tr

        states_gen, trans_gen = rg.distinct, rg.generated
        for l in rg.lines:
            gc = gen_cases[l["case"] - 1]
            k, cap, group = kernel_list[gc["_kernel"]]
            cid = len(meta) + 1
            while cid in meta:
                cid += 1
            l["case"] = cid
            lines[cid] = l
            meta[cid] = {"kernel": gc["_kernel"], "text": k.text, "formats": k.formats, "cap": cap, "group": group,
                         "dims": gc["_dims"], "stage": "machine-gen"}

    # ---- stage A3: overflow probes.  All dimensions 65536, nothing stored, kernels whose operands are all-compressed and
    # whose output has at most one dense level (so every element count still fits 32 bits): the start of the kernel
    # (dimension extraction, initial capacities, first allocations) must not overflow int32.  The run is cut off by a
    # small step budget; only a fault before that is reported.
    probes, probe_meta = [], {}
    probe_programs = list(programs)
    for ki, (k, cap, group) in enumerate(kernel_list):
        if group in ("broadcast-target", "big-literal", "inexact-literal") or cap not in (1, None):
            continue
        fu = exprs.first_use(k.asg)
        if any("d" in k.formats[nm] for nm in fu) or k.formats[k.asg["target"]].count("d") > 1 or not fu:
            continue
        dims = {i: 65536 for i in exprs.index_classes(k.asg)}
        img = dict(programs[k.progs["evaluate"] - 1], budget=300)
        probe_programs.append(img)
        pid = len(probe_programs)
        c = kernels.base_case(k, len(probes) + 1, [dims], [{nm: [] for nm in fu}],
                              [{"op": "load", "val": 1, "dims": 1}, {"op": "run", "prog": pid, "track": False}],
                              "raw", emit=False)
        probes.append(c)
        probe_meta[c["id"]] = {"kernel": ki, "text": k.text, "formats": k.formats, "cap": cap, "group": group, "dims": dims,
                               "stage": "overflow-probe"}
    probe_bad, probe_states = [], (0, 0)
    if probes:
        kernel_of_p = {c["id"]: probe_meta[c["id"]]["kernel"] for c in probes}
        prog_of_p = {probe_meta[c["id"]]["kernel"]: c["script"][1]["prog"] for c in probes}
        p_lines, p_st, p_tr, _ = machine_run(probe_programs, probes, kernel_of_p, prog_of_p, d, "p")
        probe_states = (p_st, p_tr)
        for l in p_lines:
            if l["status"] not in ("done", "idle", "step-budget", "value-range", "unsupported-node"):
                probe_bad.append({**probe_meta[l["case"]], "what": l["status"] + "-at-dimension-65536", "v": {"c05": l["status"]}, "content": {}})

    # ---- stage B: replay every safe behaviour into the real back ends ---------------------------------------------
    INCONCLUSIVE = ("value-range", "unsupported-node")
    faulty_kernels = {meta[c]["kernel"] for c, l in lines.items() if l["v"]["c05"] not in ("ok",) + INCONCLUSIVE}
    # kernels outside the model's value box (big literals): both back ends are still run, compared with each other
    # bit for bit and with an exact Fraction evaluation (exprs.denote) instead of the machine
    outside_kernels = {meta[c]["kernel"] for c, l in lines.items() if l["v"]["c05"] in INCONCLUSIVE}
    tasks = []
    for ki, (k, cap, group) in enumerate(kernel_list):
        if group == "broadcast-target" or ki in faulty_kernels:
            continue
        inputs = []
        for cid, m in meta.items():
            if m["kernel"] != ki:
                continue
            l = lines[cid]
            packed = l["packed"] if isinstance(l["packed"], dict) else {}
            fu = exprs.first_use(k.asg)
            tensors = {nm: _spec_tensor(k.formats[nm], [m["dims"][i] for i in fu[nm]], packed[nm]) for nm in fu}
            inputs.append({"cid": cid, "tensors": tensors})
        both = ki % P["c_fraction"] == 0 or ki in outside_kernels or group in ("literal", "inexact-literal", "big-literal")
        for backend in ["llvm"] + (["cffi"] if both else []):
            tasks.append({"id": f"{ki}:{backend}", "op": "eval_batch", "text": k.text, "formats": k.formats,
                          "cap": cap, "backend": backend, "inputs": inputs})
    pool = Pool()
    nat = pool.run(tasks)
    native: dict = {}  # cid -> {backend: verdict}
    for tid, r in nat.items():
        ki, backend = tid.split(":")
        ki = int(ki)
        k = kernel_list[ki][0]
        cids = [c for c, m in meta.items() if m["kernel"] == ki]
        if r.get("crashed"):
            for c in cids:
                native.setdefault(c, {})[backend] = "crashed" if c == r.get("progress") else "not-run"
            continue
        if "compile_exc" in r or "worker_exc" in r:
            for c in cids:
                native.setdefault(c, {})[backend] = "compile-" + str(r.get("compile_exc") or r.get("worker_exc"))
            continue
        for o in r["outs"]:
            c = o["cid"]
            l = lines[c]
            m = meta[c]
            if "exc" in o:
                v = "raised-" + o["exc"]
            else:
                want_dims = [m["dims"][i] for i in k.asg["tidx"]]
                want_fmt = kernels.fmt_record(k.formats[k.asg["target"]])
                if o["out"]["dims"] != want_dims:
                    v = "dimensions"
                elif o["out"]["modes"] != want_fmt["modes"] or o["out"]["ordering"] != want_fmt["ordering"]:
                    v = "format-label"
                elif l["status"] in INCONCLUSIVE and "inexact-literal" in exprs.shape_tags(k.asg):
                    v = "ok"   # no exact reference exists; the two back ends are still compared bit for bit below
                elif l["status"] in INCONCLUSIVE:
                    from fractions import Fraction

                    ct = {nm: {tuple(c_): Fraction(v_["n"], 1 << v_["e"]) for c_, v_ in seq} for nm, seq in l["content"].items()} \
                        if isinstance(l["content"], dict) else {}
                    want = exprs.denote(k.asg, m["dims"], ct)
                    got = exprs.decode(o["out"]["levels"], o["out"]["vals"],
                                       kernels.fmt_record(k.formats[k.asg["target"]]), want_dims)
                    v = "ok" if all(Fraction(got.get(c_, 0.0)) == w for c_, w in want.items()) and \
                        all(c_ in want for c_ in got) else "values-differ-from-exact-reference"
                elif not same_levels(o["out"]["levels"], l["out"]["levels"]):
                    v = "structure-differs"
                elif not same_vals(o["out"]["vals"], l["out"]["vals"]):
                    v = "values-differ"
                else:
                    v = "ok"
            native.setdefault(c, {})[backend] = v
            native[c]["raw_" + backend] = o.get("out", {}).get("vals")
    # bit-identity of the two back ends where both ran
    for c, nv in native.items():
        if "raw_llvm" in nv and "raw_cffi" in nv and nv.get("llvm") == "ok" and nv.get("cffi") == "ok":
            import struct

            a = [struct.pack("<d", x) for x in nv["raw_llvm"] or []]
            b = [struct.pack("<d", x) for x in nv["raw_cffi"] or []]
            if a != b:
                # only the sign of zero can differ here; numerical equality was established above
                nv["bits"] = "sign-of-zero-differs"
        nv.pop("raw_llvm", None)
        nv.pop("raw_cffi", None)

    # ---- stage C: wide native pass, validated by the spec as an implementation trace ------------------------------
    wide_tasks = []
    wide_meta = {}
    for ki, (k, cap, group) in enumerate(kernel_list):
        if group == "broadcast-target" or ki in faulty_kernels:
            continue
        if any(native.get(c, {}).get("llvm") in ("crashed", "not-run") for c, m in meta.items() if m["kernel"] == ki):
            continue
        fu = exprs.first_use(k.asg)
        inputs = []
        for dims, content in input_sets(k.asg, rng, P["wide_inputs"]):
            wid = len(wide_meta) + 1
            wide_meta[wid] = {"kernel": ki, "dims": dims, "content": content}
            tensors = {}
            for nm in fu:
                dims_t = [dims[i] for i in fu[nm]]
                pk = _py_pack(content[nm], kernels.fmt_record(k.formats[nm]), dims_t)
                tensors[nm] = {"fmt": kernels.fmt_record(k.formats[nm]), "dims": dims_t, **pk}
            inputs.append({"cid": wid, "tensors": tensors})
        wide_tasks.append({"id": f"w{ki}", "op": "eval_batch", "text": k.text, "formats": k.formats, "cap": cap,
                           "backend": "llvm", "inputs": inputs, "chain": has_sparse_output(k) and ki % 3 == 0})
    wnat = pool.run(wide_tasks)
    obs_cases = []
    obs_meta = {}
    wide_bad = []
    chain_bad = []
    chained = 0
    for tid, r in wnat.items():
        ki = int(tid[1:])
        k, cap, group = kernel_list[ki]
        if r.get("crashed") or "outs" not in r:
            wide_bad.append({"kernel": ki, "text": k.text, "formats": k.formats, "cap": cap,
                             "what": "crashed" if r.get("crashed") else str(r)[:200],
                             "input": wide_meta.get(r.get("progress"))})
            continue
        for o in r["outs"]:
            wm = wide_meta[o["cid"]]
            if "exc" in o:
                wide_bad.append({"kernel": ki, "text": k.text, "formats": k.formats, "cap": cap,
                                 "what": "raised-" + o["exc"], "input": wm})
                continue
            if o.get("chain") not in (None, "ok"):
                chain_bad.append({"kernel": ki, "text": k.text, "formats": k.formats, "cap": cap, "group": group,
                                  "dims": wm["dims"], "content": wm["content"], "what": o["chain"], "out": o["out"]})
            if "chain" in o:
                chained += 1
            if any(garbage(v) for v in o["out"]["vals"]) and not exprs.shape_tags(k.asg):
                wide_bad.append({"kernel": ki, "text": k.text, "formats": k.formats, "cap": cap,
                                 "what": "garbage-value", "input": wm, "out": o["out"]})
                continue
            vals = [dyadic(v) for v in o["out"]["vals"]]
            if any(v is None or abs(v["n"]) > 32767 for v in vals):
                continue  # outside the model's value box: not judged
            cid = len(obs_cases) + 1
            want_dims = [wm["dims"][i] for i in k.asg["tidx"]]
            c = kernels.base_case(k, cid, [wm["dims"]], [wm["content"]],
                                  [{"op": "load", "val": 1, "dims": 1}, {"op": "observe", "k": 1}], "single", emit=False)
            c["obs"] = [{"levels": o["out"]["levels"], "vals": vals}]
            obs_cases.append(c)
            obs_meta[cid] = {"kernel": ki, "text": k.text, "formats": k.formats, "cap": cap, "group": group,
                             "dims": wm["dims"], "stage": "native-trace",
                             "dims_ok": o["out"]["dims"] == want_dims and o["out"]["modes"] == kernels.fmt_record(k.formats[k.asg["target"]])["modes"]
                             and o["out"]["ordering"] == kernels.fmt_record(k.formats[k.asg["target"]])["ordering"]}
    rc_lines = {}
    rc_states = (0, 0)
    if obs_cases:
        dump([], d / "noprogs.json")
        rc_all, st_c, tr_c = [], 0, 0
        for lo in range(0, len(obs_cases), 12000):
            dump(obs_cases[lo:lo + 12000], d / "obs.json")
            rc = run_tlc("KernelRun", "KernelRun.cfg", env={"VF_PROGS": d / "noprogs.json", "VF_CASES": d / "obs.json"}, timeout=7200)
            rc_all += rc.lines
            st_c += rc.distinct
            tr_c += rc.generated
        if len(rc_all) != len(obs_cases):
            raise MachineryError(f"trace stage: {len(rc_all)} verdicts for {len(obs_cases)} traces")
        rc_lines = {l["case"]: l for l in rc_all}
        rc_states = (st_c, tr_c)

    # ---- stage E: arbitrary finite doubles (outside the model's value domain): C vs LLVM, bit for bit --------------------
    float_tasks, float_meta = [], {}
    FLOATS = [0.1, -0.3, 1e-3, 3.7e5, 2.0 / 3.0, -1.25e-7, 12345.678, 1e10, -7.0, 0.5]
    for ki, (k, cap, group) in enumerate(kernel_list):
        if group in ("broadcast-target",) or ki in faulty_kernels or \
                (ki % P["float_fraction"] != 0 and group not in ("literal", "inexact-literal", "structure-witness")):
            continue
        fu = exprs.first_use(k.asg)
        inputs = []
        for dims, content in input_sets(k.asg, rng, 3):
            fid = len(float_meta) + 1
            tensors = {}
            for nm in fu:
                dims_t = [dims[i] for i in fu[nm]]
                pk = _py_pack(content[nm], kernels.fmt_record(k.formats[nm]), dims_t)
                pk["vals"] = [rng.choice(FLOATS) * (1 + j) for j in range(len(pk["vals"]))]
                tensors[nm] = {"fmt": kernels.fmt_record(k.formats[nm]), "dims": dims_t, **pk}
            float_meta[fid] = {"kernel": ki, "dims": dims, "tensors": tensors}
            inputs.append({"cid": fid, "tensors": tensors})
        for backend in ("llvm", "cffi"):
            float_tasks.append({"id": f"f{ki}:{backend}", "op": "eval_batch", "text": k.text, "formats": k.formats, "cap": cap,
                                "backend": backend, "inputs": inputs})
    fnat = pool.run(float_tasks) if float_tasks else {}
    float_bad, float_compared = [], 0
    import struct as _struct

    by_kernel = {}
    for tid, r in fnat.items():
        ki, backend = tid[1:].split(":")
        by_kernel.setdefault(int(ki), {})[backend] = r
    for ki, pair in by_kernel.items():
        k, cap, group = kernel_list[ki]
        a, b = pair.get("llvm", {}), pair.get("cffi", {})
        if "outs" not in a or "outs" not in b:
            if a.get("crashed") or b.get("crashed"):
                float_bad.append({"kernel": ki, "text": k.text, "formats": k.formats, "cap": cap, "group": group, "dims": None,
                                  "what": "crashed-on-float-inputs"})
            continue
        for oa, ob in zip(a["outs"], b["outs"]):
            if "out" not in oa or "out" not in ob:
                continue
            float_compared += 1
            bits_a = [_struct.pack("<d", x) for x in oa["out"]["vals"]]
            bits_b = [_struct.pack("<d", x) for x in ob["out"]["vals"]]
            if oa["out"]["levels"] != ob["out"]["levels"] or bits_a != bits_b:
                fm = float_meta[oa["cid"]]
                float_bad.append({"kernel": ki, "text": k.text, "formats": k.formats, "cap": cap, "group": group,
                                  "dims": fm["dims"], "content": fm["tensors"], "what": "c-vs-llvm-bits-differ",
                                  "out": {"llvm": oa["out"], "c": ob["out"]}})

    # ---- stage D: every native crash / exception of the wide pass is taken back to the machine ----------------------
    confirm = []
    if wide_bad:
        ccases = []
        for wb in wide_bad:
            if not wb.get("input"):
                continue
            k = kernel_list[wb["kernel"]][0]
            cid = len(ccases) + 1
            ccases.append(kernels.base_case(k, cid, [wb["input"]["dims"]], [wb["input"]["content"]],
                                            kernels.single_script(k.progs["evaluate"]), "single", emit=False))
            wb["ccid"] = cid
        if ccases:
            ck = {}
            for wb in wide_bad:
                if "ccid" in wb:
                    ck[wb["ccid"]] = wb["kernel"]
            c_lines, _, _, _ = machine_run(programs, ccases, ck, prog_of_kernel, d, "c")
            got = {l["case"]: l for l in c_lines}
            for wb in wide_bad:
                if "ccid" in wb and wb["ccid"] in got:
                    wb["machine"] = got[wb["ccid"]]["v"]
                    wb["machine_status"] = got[wb["ccid"]]["status"]
        confirm = wide_bad

    import shutil

    shutil.rmtree(d, ignore_errors=True)

    def _kinds(x, acc):
        if isinstance(x, dict):
            if isinstance(x.get("k"), str):
                acc.add(x["k"])
            for v_ in x.values():
                _kinds(v_, acc)
        elif isinstance(x, list):
            for v_ in x:
                _kinds(v_, acc)
        return acc

    ir_kinds = sorted(_kinds(programs, set()))

    records = []
    for cid, l in sorted(lines.items()):
        m = meta[cid]
        records.append({"cid": cid, **m, "v": l["v"], "status": l["status"], "steps": l["steps"], "iters": l["iters"],
                        "content": l["content"], "out": l["out"], "native": native.get(cid, {})})
    traces = []
    for cid, l in sorted(rc_lines.items()):
        m = obs_meta[cid]
        traces.append({"cid": cid, **m, "v": l["v"], "content": l["content"], "out": obs_cases[cid - 1]["obs"][0]})
    return Result(
        tier=t, seed=s, wall=timer.s(), kernels=len(kernel_list), programs=len(programs), skipped_requests=skipped,
        states=ra.distinct + rc_states[0] + states_gen + probe_states[0] + structure["states"],
        transitions=ra.generated + rc_states[1] + trans_gen + structure["transitions"], depth=ra.depth,
        exhaustive_input_kernels=len(gen_cases), exhaustive_input_behaviours=gen_expected,
        coverage=ra.coverage, records=records, traces=traces, wide_bad=wide_bad, chain_bad=chain_bad, chained=chained,
        float_bad=float_bad, float_compared=float_compared, probe_bad=probe_bad, probes=len(probes),
        native_tasks=len(tasks), wide_tasks=len(wide_tasks), structure=structure, ir_kinds=ir_kinds,
    )
