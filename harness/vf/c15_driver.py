"""Runs inside a fresh Python process (given PYTHONHASHSEED): executes a job and prints one JSON event per line."""
from __future__ import annotations

import hashlib
import json
import os
import sys
import tempfile

from .common import use_repo

use_repo()


def sha(text: str) -> str:
    return hashlib.sha256(text.encode()).hexdigest()[:16]


def main():
    job = json.load(open(sys.argv[1]))
    proc = job["proc"]
    from returns.result import Success
    from typer.testing import CliRunner

    import tensora
    import tensora.compile._porcelain as porc
    from tensora import Tensor
    from tensora.cli import app
    from tensora.compile import BackendCompiler
    from tensora.expression import parse_assignment
    from tensora.format import parse_format
    from tensora.generate import Language, generate_code
    from tensora.kernel_type import KernelType
    from tensora.problem import Problem, make_problem

    runner = CliRunner()
    out = sys.stdout

    def emit(ev):
        out.write("@@" + json.dumps(ev) + "\n")
        out.flush()

    serials = [0]
    info = porc.cachable_tensor_method.cache_info()
    emit({"ev": "Meta", "proc": proc, "maxsize": info.maxsize if info.maxsize is not None else 1000000,
          "hashseed": os.environ.get("PYTHONHASHSEED")})
    for a in job["actions"]:
        act = a["act"]
        if act == "gen":
            r = a["req"]
            try:
                # "unmentioned tensors dense": with omit_dense the all-dense natural formats are simply not given
                fmts_ = list(reversed(r["formats"])) if a.get("reverse_formats") else r["formats"]
                given = [(n, f) for n, f in fmts_
                         if not (a.get("omit_dense") and "s" not in f and f == "".join(f"d{i}" for i in range(f.count("d"))))]
                pr = make_problem(parse_assignment(r["text"]).unwrap(), {n: parse_format(f).unwrap() for n, f in given}).unwrap()
                res = generate_code(pr, [KernelType[k] for k in r["kinds"]], Language[r["lang"]])
                digest = sha(res.unwrap().rstrip("\n")) if isinstance(res, Success) else "REFUSED"
            except Exception as e:  # noqa: BLE001
                digest = "EXC:" + type(e).__name__
            emit({"ev": "Generated", "proc": proc, "req": r["id"], "sha": digest})
        elif act == "cli":
            r = a["req"]
            args = [r["text"]]
            for n, f in (list(reversed(r["formats"])) if a.get("reverse_formats") else r["formats"]):
                if a.get("omit_dense") and f == "".join(f"d{i}" for i in range(f.count("d"))) and "s" not in f:
                    continue
                args += ["-f", f"{n}:{f}"]
            for k in r["kinds"]:
                args += ["-t", k]
            args += ["-l", r["lang"]]
            res = runner.invoke(app, args)
            with tempfile.TemporaryDirectory() as td:
                path = os.path.join(td, "k.out")
                res2 = runner.invoke(app, args + ["-o", path])
                file_text = open(path).read() if os.path.exists(path) else None
            if res.exit_code == 0:
                so = sha(res.stdout.rstrip("\n"))
                fo = sha(file_text.rstrip("\n")) if file_text is not None else "NOFILE"
            else:
                so = "REFUSED" if res.exit_code == 1 else "ERR:exit" + str(res.exit_code)
                fo = so if file_text is None and res2.exit_code == res.exit_code else "FILE-WRITTEN-ON-ERROR"
            emit({"ev": "Cli", "proc": proc, "req": r["id"], "stdout": so, "file": fo})
        elif act == "lookup":
            pb = a["problem"]
            before = porc.cachable_tensor_method.cache_info().hits
            try:
                if a.get("direct"):
                    problem = Problem(parse_assignment(pb["text"]).unwrap(), {n: parse_format(f).unwrap() for n, f in pb["formats"]})
                    tm = porc.cachable_tensor_method(problem, BackendCompiler[pb["backend"]])
                else:
                    tm = tensora.tensor_method(pb["text"], dict(pb["formats"]), BackendCompiler[pb["backend"]])
            except Exception as e:  # noqa: BLE001
                emit({"ev": "LookupFailed", "proc": proc, "key": pb["key"], "exc": type(e).__name__})
                continue
            hit = porc.cachable_tensor_method.cache_info().hits > before
            # identity of the kernel object: a serial number attached at first sight (id() is reused after eviction)
            serial = getattr(tm, "_vf_serial", None)
            if serial is None:
                serials[0] += 1
                serial = tm._vf_serial = serials[0]
            emit({"ev": "Lookup", "proc": proc, "key": pb["key"], "rawkey": pb.get("rawkey", pb["key"]), "kernel": serial, "hit": hit})
        elif act == "clear":
            porc.cachable_tensor_method.cache_clear()
            emit({"ev": "CacheClear", "proc": proc})
        elif act == "result":
            r = a["req"]
            try:
                inputs = {n: Tensor.from_dok({tuple(c): v for c, v in dok}, dimensions=tuple(dims), format=f)
                          for n, (f, dims, dok) in r["inputs"].items()}
                t = tensora.evaluate(r["text"], r["output_format"], **inputs)
                digest = sha(json.dumps([list(t.dimensions), t.taco_indices, t.taco_vals]))
            except Exception as e:  # noqa: BLE001
                digest = "EXC:" + type(e).__name__
            emit({"ev": "Result", "proc": proc, "req": r["id"], "input": r["input_id"], "sha": digest})


if __name__ == "__main__":
    main()
