"""The harness's own reading of assignment text (independent of tensora's parser) and the spec-side AST.

Spec AST (what spec/TensorAlgebra.tla consumes):
    {"k":"T","name":..,"idx":[..]} | {"k":"L","v":{"n","e"}} | {"k":"+"|"-"|"*","l":..,"r":..}
"""
from __future__ import annotations

import re
from fractions import Fraction

from .common import dyadic

_TOK = re.compile(r"\s*(?:(\d+\.\d+(?:[eE][+-]?\d+)?|\d+[eE][+-]?\d+|\d+)|([A-Za-z][A-Za-z0-9]*)|(.))")


def tokenize(text: str):
    out = []
    pos = 0
    while pos < len(text):
        m = _TOK.match(text, pos)
        if not m:
            break
        pos = m.end()
        if m.group(1) is not None:
            out.append(("num", m.group(1)))
        elif m.group(2) is not None:
            out.append(("id", m.group(2)))
        elif m.group(3).strip():
            out.append(("op", m.group(3)))
    return out


class _P:
    def __init__(self, toks):
        self.t = toks
        self.i = 0

    def peek(self):
        return self.t[self.i] if self.i < len(self.t) else ("end", "")

    def eat(self, kind=None, val=None):
        k, v = self.peek()
        if (kind and k != kind) or (val and v != val):
            raise SyntaxError(f"expected {kind} {val} at {self.i}: {self.t}")
        self.i += 1
        return v

    def tensor(self):
        name = self.eat("id")
        self.eat("op", "(")
        idx = []
        if self.peek() != ("op", ")"):
            idx.append(self.eat("id"))
            while self.peek() == ("op", ","):
                self.eat()
                idx.append(self.eat("id"))
        self.eat("op", ")")
        return {"k": "T", "name": name, "idx": idx}

    def factor(self):
        k, v = self.peek()
        if k == "id":
            return self.tensor()
        if k == "num":
            self.eat()
            fr = Fraction(v) if "e" not in v.lower() else Fraction(float(v))
            d = dyadic(fr)
            return {"k": "L", "v": d, "text": v} if d else {"k": "L", "v": None, "text": v, "float": float(v)}
        self.eat("op", "(")
        e = self.expr()
        self.eat("op", ")")
        return e

    def term(self):
        e = self.factor()
        while self.peek() == ("op", "*"):
            self.eat()
            e = {"k": "*", "l": e, "r": self.factor()}
        return e

    def expr(self):
        e = self.term()
        while self.peek() in (("op", "+"), ("op", "-")):
            op = self.eat()
            e = {"k": op, "l": e, "r": self.term()}
        return e


def parse(text: str) -> dict:
    """'a(i) = b(i,j) * c(j)' -> {"target": name, "tidx": [...], "rhs": expr}."""
    p = _P(tokenize(text))
    t = p.tensor()
    p.eat("op", "=")
    rhs = p.expr()
    if p.peek()[0] != "end":
        raise SyntaxError(text)
    return {"target": t["name"], "tidx": t["idx"], "rhs": rhs}


def leaves(e):
    if e["k"] == "T":
        return [e]
    if e["k"] == "L":
        return []
    return leaves(e["l"]) + leaves(e["r"])


def literals(e):
    if e["k"] == "L":
        return [e]
    if e["k"] == "T":
        return []
    return literals(e["l"]) + literals(e["r"])


def strip(e):
    """Drop harness-only keys so TLC sees the plain spec AST."""
    if e["k"] == "T":
        return {"k": "T", "name": e["name"], "idx": list(e["idx"])}
    if e["k"] == "L":
        # a literal outside TLC's range is replaced by a placeholder; such cases carry the shape tag "big-literal"
        # and their value verdicts are never used (see checks/_pipe.py)
        return {"k": "L", "v": e["v"] if e["v"] is not None and abs(e["v"]["n"]) <= 32767 else {"n": 0, "e": 0}}
    return {"k": e["k"], "l": strip(e["l"]), "r": strip(e["r"])}


def deparse(e, parent=None, right=False) -> str:
    if e["k"] == "T":
        return f"{e['name']}({','.join(e['idx'])})"
    if e["k"] == "L":
        return e.get("text") or _lit(e["v"])
    s = f"{deparse(e['l'], e['k'], False)} {e['k']} {deparse(e['r'], e['k'], True)}"
    need = False
    if parent == "*" and e["k"] in "+-":
        need = True
    elif parent == "*" and e["k"] == "*" and right:
        need = True
    elif parent in ("+", "-") and e["k"] in "+-" and right:
        need = True
    return f"({s})" if need else s


def _lit(d):
    if d["e"] == 0:
        return str(d["n"])
    return repr(d["n"] / (1 << d["e"]))


def tensor_orders(asg) -> dict:
    """name -> order, in order of first appearance (target first), like Assignment.variable_orders."""
    out = {asg["target"]: len(asg["tidx"])}
    for lf in leaves(asg["rhs"]):
        out.setdefault(lf["name"], len(lf["idx"]))
    return out


def index_classes(asg) -> dict:
    """index -> representative: indexes that meet in one dimension of one tensor must have equal size."""
    idxs = list(dict.fromkeys(list(asg["tidx"]) + [i for lf in leaves(asg["rhs"]) for i in lf["idx"]]))
    par = {i: i for i in idxs}

    def find(x):
        while par[x] != x:
            x = par[x]
        return x

    slots = {}
    for lf in leaves(asg["rhs"]):
        for d, i in enumerate(lf["idx"]):
            key = (lf["name"], d)
            if key in slots:
                par[find(i)] = find(slots[key])
            else:
                slots[key] = i
    return {i: find(i) for i in idxs}


def first_use(asg) -> dict:
    """input tensor name -> index list of its first use (dimension naming follows the first use)."""
    out = {}
    for lf in leaves(asg["rhs"]):
        out.setdefault(lf["name"], list(lf["idx"]))
    return out


def has_diagonal(asg) -> bool:
    return any(len(set(lf["idx"])) != len(lf["idx"]) for lf in leaves(asg["rhs"])) or len(set(asg["tidx"])) != len(asg["tidx"])


def broadcast_target(asg) -> bool:
    used = {i for lf in leaves(asg["rhs"]) for i in lf["idx"]}
    return any(i not in used for i in asg["tidx"])


def expr_indexes(e) -> set:
    return {i for lf in leaves(e) for i in lf["idx"]}


def in_every_term(e, k) -> bool:
    if e["k"] in "+-":
        return in_every_term(e["l"], k) and in_every_term(e["r"], k)
    if e["k"] == "*":
        return in_every_term(e["l"], k) or in_every_term(e["r"], k)
    if e["k"] == "T":
        return k in e["idx"]
    return False


def _nodes(e):
    yield e
    if e["k"] in "+-*":
        yield from _nodes(e["l"])
        yield from _nodes(e["r"])


def shape_tags(asg) -> list[str]:
    """Structural tags of an assignment, used to identify known findings precisely."""
    tags = []
    contracted = expr_indexes(asg["rhs"]) - set(asg["tidx"])
    for n in _nodes(asg["rhs"]):
        if n["k"] == "*":
            for k in contracted & expr_indexes(n["l"]) & expr_indexes(n["r"]):
                if not in_every_term(n["l"], k) and not in_every_term(n["r"], k):
                    tags.append("product-of-partial-sums")
    for n in _nodes(asg["rhs"]):
        # the IR mirrors the expression tree; a sum directly under the right of a sum (or product under product) is
        # printed without parentheses by the C back end
        if (n["k"] == "+" and n["r"]["k"] in "+") or (n["k"] == "*" and n["r"]["k"] == "*") or \
                (n["k"] == "+" and n["r"]["k"] == "-"):
            tags.append("right-nested-assoc")
    for lit in literals(asg["rhs"]):
        if lit["v"] is None or abs(lit["v"]["n"]) > 32767:
            fr = Fraction(lit["text"]) if "e" not in lit["text"].lower() else Fraction(float(lit["text"]))
            den = fr.denominator
            # big-literal: an INTEGER beyond TLC's range (double arithmetic on it and the harness's small dyadic inputs is
            # still exact, so an exact Fraction reference applies); inexact-literal: anything else the model cannot hold
            # (non-dyadic decimals, tiny or huge magnitudes in exponent notation): the back ends round, no exact
            # reference applies, they are compared with each other bit for bit
            tags.append("big-literal" if den == 1 and "e" not in lit["text"].lower() and "." not in lit["text"] else "inexact-literal")
    return sorted(set(tags))


def terms(e):
    """Signed sum-of-products expansion: list of lists of leaves/literals (signs dropped)."""
    if e["k"] in ("T", "L"):
        return [[e]]
    if e["k"] in "+-":
        return terms(e["l"]) + terms(e["r"])
    return [a + b for a in terms(e["l"]) for b in terms(e["r"])]


def sparse_only_indexes(asg, formats: dict) -> list[str]:
    """Harness-side candidate filter mirroring TensorAlgebra!SparseOnlyIndex (the spec decides applicability)."""
    def mode_of_dim(fmt: str, d: int) -> str:
        modes = [c for c in fmt if c in "ds"]
        digits = [int(c) for c in fmt if c.isdigit()] or list(range(len(modes)))
        return modes[digits.index(d)]

    out = []
    all_idx = list(dict.fromkeys(list(asg["tidx"]) + [i for lf in leaves(asg["rhs"]) for i in lf["idx"]]))
    for x in all_idx:
        ok = all(mode_of_dim(formats[lf["name"]], d) == "s" for lf in leaves(asg["rhs"]) for d, i in enumerate(lf["idx"]) if i == x)
        ok = ok and all(mode_of_dim(formats[asg["target"]], d) == "s" for d, i in enumerate(asg["tidx"]) if i == x)
        ok = ok and all(any(f["k"] == "T" and x in f["idx"] for f in t) for t in terms(asg["rhs"]))
        if ok:
            out.append(x)
    return out


# ---------------------------------------------------------------------------------------------------------------------
# Exact reference evaluation with Fractions.  Used ONLY where TLC's 32-bit integers cannot represent the values
# (literals beyond 2^15): there the TLA+ oracle is inconclusive and this mirrors TensorAlgebra!DenoteAt.


def denote(asg, dims: dict, content: dict) -> dict:
    """target coordinate -> Fraction, content: name -> {coord tuple: Fraction}."""
    import itertools
    from fractions import Fraction

    def signed_terms(e, sign=1):
        if e["k"] in ("T", "L"):
            return [(sign, [e])]
        if e["k"] == "+":
            return signed_terms(e["l"], sign) + signed_terms(e["r"], sign)
        if e["k"] == "-":
            return signed_terms(e["l"], sign) + signed_terms(e["r"], -sign)
        return [(s1 * s2 * sign, f1 + f2) for s1, f1 in signed_terms(e["l"]) for s2, f2 in signed_terms(e["r"])]

    def lit(f):
        if f["v"] is not None:
            return Fraction(f["v"]["n"], 1 << f["v"]["e"])
        return Fraction(f["text"]) if "e" not in f["text"].lower() else Fraction(float(f["text"]))

    tidx = list(asg["tidx"])
    out = {}
    for c in itertools.product(*[range(dims[i]) for i in tidx]):
        env0 = dict(zip(tidx, c))
        total = Fraction(0)
        for sign, factors in signed_terms(asg["rhs"]):
            own = sorted({i for f in factors if f["k"] == "T" for i in f["idx"]} - set(tidx))
            for vals in itertools.product(*[range(dims[i]) for i in own]):
                env = dict(env0, **dict(zip(own, vals)))
                p = Fraction(sign)
                for f in factors:
                    p *= lit(f) if f["k"] == "L" else content[f["name"]].get(tuple(env[i] for i in f["idx"]), Fraction(0))
                total += p
        out[c] = total
    return out


def decode(levels, vals, fmt: dict, dims_t: list) -> dict:
    """Raw arrays -> {coordinate (dimension order): value}; the harness-side mirror of Storage!Decode."""
    modes, ordering = fmt["modes"], fmt["ordering"]
    n = len(modes)
    out = {}

    def rec(l, prefix, pos):
        if l == n:
            c = [None] * n
            for lv in range(n):
                c[ordering[lv]] = prefix[lv]
            out[tuple(c)] = vals[pos]
            return
        d = dims_t[ordering[l]]
        if modes[l] == "d":
            for k in range(d):
                rec(l + 1, prefix + [k], pos * d + k)
        else:
            p, cr = levels[l]
            for q in range(p[pos], p[pos + 1]):
                rec(l + 1, prefix + [cr[q]], q)

    rec(0, [], 0)
    return out
