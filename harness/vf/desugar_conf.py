"""Conformance of the real contraction placement (desugar_assignment) with spec/Desugar.tla.

TLC enumerates small assignments, checks that the specified placement computes the denotation whenever the assignment
is Distributable, and prints the specified desugared tree; here each is compared with the tree the working tree's
desugar_assignment builds (contraction chains are compared as index sets, tensor ids are ignored).
"""
from __future__ import annotations

from .common import dyadic, use_repo
from .tlc import MachineryError, run_tlc, workdir

use_repo()


def real_tree(text: str):
    from tensora.desugar import ast as d
    from tensora.desugar import desugar_assignment
    from tensora.expression import parse_assignment

    a = desugar_assignment(parse_assignment(text).unwrap())

    def conv(e):
        if isinstance(e, d.Contract):
            over = []
            while isinstance(e, d.Contract):
                over.append(e.index)
                e = e.expression
            return {"k": "C", "over": sorted(over), "e": conv(e)}
        if isinstance(e, d.Tensor):
            return {"k": "T", "name": e.name, "idx": list(e.indexes)}
        if isinstance(e, (d.Integer, d.Float)):
            return {"k": "L", "v": dyadic(e.value)}
        op = {d.Add: "+", d.Multiply: "*"}[type(e)]
        return {"k": op, "l": conv(e.left), "r": conv(e.right)}

    return conv(a.expression)


def norm(t):
    if t["k"] == "C":
        return {"k": "C", "over": sorted(t["over"]), "e": norm(t["e"])}
    if t["k"] in ("T", "L"):
        return {k: (list(v) if isinstance(v, (list, tuple)) else v) for k, v in t.items()}
    return {"k": t["k"], "l": norm(t["l"]), "r": norm(t["r"])}


def run(tier: str, seed: int) -> dict:
    d = workdir("desugar")
    cfg = d / "Desugar.cfg"
    plans = [(3, None)] if tier == "quick" else [(3, None), (5, 4000)]
    lines, states, trans = [], 0, 0
    for leaves, sim in plans:
        cfg.write_text(f"SPECIFICATION Spec\nCONSTANTS\n  MaxLeaves = {leaves}\nINVARIANT Correct\nINVARIANT Emit\nCHECK_DEADLOCK FALSE\n")
        if sim:
            r = run_tlc("Desugar", str(cfg), simulate=f"num={sim}", depth=30, seed=seed + 3, workers=1, timeout=1800)
        else:
            r = run_tlc("Desugar", str(cfg), timeout=1800)
        if r.violated:
            raise MachineryError(f"Desugar.tla: the specified contraction placement violates {r.violated} (specification error)")
        lines += r.lines
        states += r.distinct
        trans += r.generated
    import shutil

    shutil.rmtree(d, ignore_errors=True)
    seen, vio, compared, nondist = set(), [], 0, 0
    for l in lines:
        if l["text"] in seen:
            continue
        seen.add(l["text"])
        compared += 1
        if not l["distributable"]:
            nondist += 1
        try:
            got = real_tree(l["text"])
        except Exception as e:  # noqa: BLE001
            vio.append({"what": f"desugar_assignment raised {type(e).__name__} on {l['text']}", "key": {"clause": "desugar-raised", "text": l["text"]},
                        "check": "desugar", "case": l})
            continue
        if got != norm(l["desugared"]):
            vio.append({"what": f"contraction placement of {l['text']} deviates from spec/Desugar.tla: real {got}, specified {norm(l['desugared'])}"[:600],
                        "key": {"clause": "desugar-deviates-from-specification", "text": l["text"], "shape": "" if l["distributable"] else "product-of-partial-sums"},
                        "check": "desugar", "case": l})
    return {"violations": vio, "states": states, "transitions": trans, "compared": compared, "not_distributable": nondist}
