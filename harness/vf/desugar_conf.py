"""Conformance of the real contraction placement (desugar_assignment) with spec/Desugar.tla.

TLC enumerates small assignments, checks that the specified placement computes the denotation whenever the assignment
is Distributable, and prints the specified desugared tree; here each is compared with the tree the working tree's
desugar_assignment builds (contraction chains are compared as index sets, tensor ids are ignored).
"""
from __future__ import annotations

from .common import dyadic, use_repo
from .tlc import MachineryError, run_tlc, workdir

use_repo()


def real_tree(text: str):
    from tensora.desugar import ast as d
    from tensora.desugar import desugar_assignment
    from tensora.expression import parse_assignment

    a = desugar_assignment(parse_assignment(text).unwrap())

    def conv(e):
        if isinstance(e, d.Contract):
            over = []
            while isinstance(e, d.Contract):
                over.append(e.index)
                e = e.expression
            return {"k": "C", "over": sorted(over), "e": conv(e)}
        if isinstance(e, d.Tensor):
            return {"k": "T", "name": e.name, "idx": list(e.indexes)}
        if isinstance(e, (d.Integer, d.Float)):
            return {"k": "L", "v": dyadic(e.value)}
        op = {d.Add: "+", d.Multiply: "*"}[type(e)]
        return {"k": op, "l": conv(e.left), "r": conv(e.right)}

    return conv(a.expression)


def norm(t):
    if t["k"] == "C":
        return {"k": "C", "over": sorted(t["over"]), "e": norm(t["e"])}
    if t["k"] in ("T", "L"):
        return {k: (list(v) if isinstance(v, (list, tuple)) else v) for k, v in t.items()}
    return {"k": t["k"], "l": norm(t["l"]), "r": norm(t["r"])}


def run(tier: str, seed: int) -> dict:
    d = workdir("desugar")
    cfg = d / "Desugar.cfg"
    plans = [(3, None)] if tier == "quick" else [(3, None), (5, 4000)]
    lines, states, trans = [], 0, 0
    for leaves, sim in plans:
        cfg.write_text(f"SPECIFICATION Spec\nCONSTANTS\n  MaxLeaves = {leaves}\nINVARIANT Correct\nINVARIANT Emit\nCHECK_DEADLOCK FALSE\n")
        if sim:
            r = run_tlc("Desugar", str(cfg), simulate=f"num={sim}", depth=30, seed=seed + 3, workers=1, timeout=1800)
        else:
            r = run_tlc("Desugar", str(cfg), timeout=1800)
        if r.violated:
            raise MachineryError(f"Desugar.tla: the specified contraction placement violates {r.violated} (specification error)")
        lines += r.lines
        states += r.distinct
        trans += r.generated
    # theorems about the oracle itself (spec/AlgebraLaws.tla): Denote is invariant under commuting, re-bracketing,
    # distributing and renaming, and a non-zero value has structural support
    LAWS = ["Commutes", "Associates", "SubtractRules", "Distributes", "RenamesIndex", "RenamesTensor", "ValueNeedsSupport"]
    cfg.write_text("SPECIFICATION Spec\nCONSTANTS\n  MaxLeaves = 3\n" + "".join(f"INVARIANT {x}\n" for x in LAWS) + "CHECK_DEADLOCK FALSE\n")
    r = run_tlc("AlgebraLaws", str(cfg), timeout=1800)
    if r.violated or not r.ok:
        raise MachineryError(f"AlgebraLaws.tla: the oracle violates {r.violated} (specification error)")
    law_states = r.distinct
    states += r.distinct
    trans += r.generated
    import shutil

    shutil.rmtree(d, ignore_errors=True)
    seen, vio, compared, nondist, raised = set(), [], 0, 0, 0
    deviating = []
    for l in lines:
        if l["text"] in seen:
            continue
        seen.add(l["text"])
        compared += 1
        if not l["distributable"]:
            nondist += 1
        try:
            got = real_tree(l["text"])
        except Exception:  # noqa: BLE001 - no kernel is produced: nothing for C01 to judge (totality is C08's)
            raised += 1
            continue
        if got != norm(l["desugared"]):
            deviating.append((l, got))
    # A deviating tree is not thereby wrong: it is judged by what it computes (spec/DesugarTrace.tla).
    alternative = 0
    if deviating:
        from . import exprs
        from .common import dump

        d = workdir("desugartrace")
        trees = []
        for l, got in deviating:
            asg = exprs.parse(l["text"])
            trees.append({"text": l["text"], "tidx": list(asg["tidx"]), "rhs": exprs.strip(asg["rhs"]), "tree": got})
        dump(trees, d / "trees.json")
        cfg = d / "DesugarTrace.cfg"
        cfg.write_text("SPECIFICATION TSpec\nCONSTANTS\n  MaxLeaves = 1\nINVARIANT Judge\nCHECK_DEADLOCK FALSE\n")
        r = run_tlc("DesugarTrace", str(cfg), env={"VF_TREES": d / "trees.json"}, timeout=1800)
        states += r.distinct
        trans += r.generated
        shutil.rmtree(d, ignore_errors=True)
        verdict = {x["n"]: x["verdict"] for x in r.lines}
        if len(verdict) != len(trees):
            raise MachineryError(f"DesugarTrace: {len(verdict)} verdicts for {len(trees)} deviating trees")
        for i, (l, got) in enumerate(deviating, 1):
            if verdict[i] == "alternative-correct":
                alternative += 1
                continue
            vio.append({"what": f"the contraction placement of {l['text']} does not compute its meaning ({verdict[i]}): real tree {got}"[:600],
                        "key": {"clause": "desugared-tree-" + verdict[i], "text": l["text"],
                                "shape": "" if l["distributable"] else "product-of-partial-sums"},
                        "check": "desugar", "case": {**l, "real": got}})
    return {"violations": vio, "states": states, "transitions": trans, "compared": compared, "not_distributable": nondist,
            "deviating": len(deviating), "alternative_correct": alternative, "raised": raised,
            "law_states": law_states, "laws": LAWS}
