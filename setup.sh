#!/bin/sh
# Build everything the checks need from files on disk (offline).
cd "$(dirname "$0")" || exit 1
mkdir -p .work evidence replays
if [ -f native/interpose.c ]; then
  gcc -O1 -shared -fPIC -o native/libinterpose.so native/interpose.c -ldl || exit 1
fi
cd spec || exit 1
for m in *.tla; do
  out=$(java -cp /opt/veriftools/tla/tla2tools.jar:/opt/veriftools/tla/CommunityModules-deps.jar tla2sany.SANY "$m" 2>&1)
  if echo "$out" | grep -q -e 'Semantic errors' -e 'Parse Error' -e 'Cannot find source' -e 'Fatal errors'; then
    echo "SANY failed on $m"; echo "$out" | tail -20; exit 1
  fi
done
echo setup ok
