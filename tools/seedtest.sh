#!/bin/bash
# tools/seedtest.sh <seed id> <worktree with the change applied + patch.diff demo.py NOTES.md> <check ids...>
# Confirms a seeded change without touching /repo: the suite passes in the changed worktree, the demo fails there and
# passes on the unchanged /repo, and the given checks are run against the changed tree (VERIF_REPO).
# With APPLY=1 the patch is instead applied to /repo itself for the checks and reverted afterwards.
set -u
id=$1; wt=$2; shift 2
dst=/verif/seeded/$id
mkdir -p "$dst"
cp "$wt/patch.diff" "$wt/demo.py" "$dst/" 2>/dev/null
cp "$wt/NOTES.md" "$dst/NOTES.md" 2>/dev/null
( cd /repo && git diff --quiet ) || { echo "/repo has uncommitted changes"; exit 2; }
( cd "$wt" && git apply --check -R patch.diff ) || { echo "patch.diff is not what is applied in $wt"; exit 2; }
PYTHONPATH=/repo/src timeout 900 /venv/bin/python "$dst/demo.py" >"$dst/demo_clean.log" 2>&1; clean=$?
PYTHONPATH=$wt/src timeout 900 /venv/bin/python "$dst/demo.py" >"$dst/demo_seeded.log" 2>&1; seeded=$?
echo "[$id] demo: unchanged exit=$clean, changed exit=$seeded"
if [ "${SKIP_SUITE:-0}" != "1" ]; then
  ( cd "$wt" && PYTHONPATH=$wt/src timeout 2400 /venv/bin/python -m pytest -q -p no:cacheprovider --timeout=900 tests tests_cffi fuzz_tests/test_parsing.py 2>&1 | tail -1 ) | tee "$dst/suite.log"
fi
cd /verif || exit 2
if [ "${APPLY:-0}" = "1" ]; then
  git -C /repo apply "$dst/patch.diff" || exit 2
  trap 'git -C /repo checkout -- . ' EXIT
  export VERIF_REPO=/repo
else
  export VERIF_REPO=$wt
fi
for c in "$@"; do
  ./check "$c" --tier "${SEED_TIER:-quick}" >"$dst/check_$c.log" 2>&1; rc=$?
  echo "[$id] check $c exit=$rc: $(grep -c "^VIOLATION" "$dst/check_$c.log") VIOLATION lines; $(tail -1 "$dst/check_$c.log")"
  grep -A1 '^VIOLATION' "$dst/check_$c.log" | grep -v '^VIOLATION\|^--' | cut -c1-220 | head -2
done
