#!/bin/bash
# tools/coverage.sh [check ids...]   (development aid, not a registered command)
# Runs the given checks (default: all, quick tier) with VF_COVERAGE_DIR set, combines the per-process data and lists
# the lines/branches of tensora that no harness process executed: the implementation behaviour the machinery never
# observes.  Result: .work/cov/report.txt
cd "$(dirname "$0")/.." || exit 2
d=$PWD/.work/cov
rm -rf "$d"; mkdir -p "$d"
checks=${*:-C01 C04 C06 C07 C08 C09 C10 C11 C12 C13 C14 C15 C16}
for c in $checks; do
  VF_COVERAGE_DIR=$d ./check "$c" --tier "${TIER:-quick}" > "$d/$c.log" 2>&1
  echo "$c exit=$? $(tail -1 "$d/$c.log" | cut -c1-160)"
done
cd "$d" || exit 2
/venv/bin/python -m coverage combine --data-file=cov -q . >/dev/null 2>&1
/venv/bin/python -m coverage report --data-file=cov -m --skip-covered > report.txt 2>&1
tail -n 60 report.txt
