#!/usr/bin/env python3
"""tools/mkmeta.py: (re)writes seeded/<id>/meta.json from the logs tools/seedtest.sh left there and the table below."""
import json
import os
import pathlib
import re
import sys

ROOT = pathlib.Path(__file__).resolve().parents[1] / "seeded"

# seed -> (property, origin, what it needs to manifest, detection)
TABLE = {
    "S3-C04-dense-contraction-assemble": ("C04", "independent sub-agent (round 3)",
        "separate assemble kernel; a dense contracted level above a compressed level / sparse intersection; an output coordinate with no contribution at all",
        "C04 assemble-structure-differs (machine)"),
    "S3-C05-vals-shrink": ("C05", "independent sub-agent (round 3)",
        "assemble then compute on the same output; dense level(s) below the last compressed output level; the last candidate of that level rejected after the last stored one",
        "C04 fault-oob-write-in-compute (the property's C04 clause 'writes only inside the value array assemble sized'); C05 is silent: the evaluate kernel is unaffected"),
    "S3-C06-compound-assign": ("C06", "independent sub-agent (round 3)",
        "a contraction accumulated into a dense output whose terminal is a sum of >= 2 terms; rounding-sensitive values (C only)",
        "C06 c-vs-llvm-bits-differ (arbitrary-double stage)"),
    "S3-C07-branch-common-decl": ("C07", "independent sub-agent (round 3)",
        "IR-level program: both arms of a branch open with the same declaration of a variable that the condition reads, and the arms differ observably",
        "missed at first; C07 memory-differs after IRGen.tla got the arm-similarity / re-declaration productions (Root stmtR)"),
    "S3-C08-flat-sum-scalar": ("C08", "independent sub-agent (round 3)",
        "scalar output; a sum containing a nested contraction; two terms iterating the hoisted index densely; language C",
        "missed at first; C08 toolchain-rejects-code after the catalogue joined the C08 requests (+ scalar-sum group)"),
    "S3-C09-items-generator": ("C09", "independent sub-agent (round 3)",
        "items() called on a tensor nothing else references (temporary, to_format result, unpickled), consumed after other allocations",
        "missed at first; C13 (Iter/Consume in Ownership.tla + poisoning interposer: process dies / wrong content) and C09 (iterator of a temporary tensor)"),
    "S3-C10-validated-fastpath": ("C10", "independent sub-agent (round 3)",
        "a consistent call first, then an inconsistent call whose arguments have equal content (Tensor.__eq__ ignores dimensions and format)",
        "missed at first; C10 kernel-entered-on-inconsistent-arguments / crash after CallProtocol.tla got primed two-call histories and arguments with content"),
    "S3-C11-shared-scalar": ("C11", "independent sub-agent (round 3)",
        "two threads doing tensor-with-Python-number arithmetic at the same time (one shared order-0 operand overwritten in place)",
        "missed at first (C11 sequential, C14 without operators); C14 result-differs-from-sequential in the operator hammer rounds"),
    "S3-C12-target-reuse-indexes": ("C12", "independent sub-agent (round 3)",
        "the target reused on the right-hand side with a different index list", "C12 invalid-assignment-accepted"),
    "S3-C13-validated-set-leak": ("C13", "independent sub-agent (round 3)",
        "a kernel output passed back in as an input of a later evaluation and then dropped (strong reference kept in a per-method memo set)",
        "C13 leak / not-freed-after-last-reference"),
    "S3-C14-lazy-compile": ("C14", "independent sub-agent (round 3)",
        "two or more threads overlapping their FIRST call of one kernel while a call is in flight for milliseconds (engine replaced under a running call)",
        "machinery failure at first (entry hook), then trace rejections for the wrong reason (corrected); caught by real crashes in the cold-heavy rounds"),
    "S3-C15-sum-comment": ("C15", "independent sub-agent (round 3)",
        "a sum node with two or more loop indexes under it; the same request generated under different hash seeds",
        "C15 trace rejected at Generated (text-not-a-pure-function)"),
    "S3-C16-merge-cap": ("C16", "independent sub-agent (round 3)",
        "four or more compressed operands merged by union over one index",
        "C16 work-depends-on-dimension (wide-merge catalogue group, added while the seed was being confirmed)"),
    "S4-C01-literal-terminal-flag": ("C01", "independent sub-agent (round 4)",
        "a compressed output level; an additive bare-literal term; a coordinate where the sparse operands of the merged term are absent",
        "C01 wrong-value (machine; literal group taken over its whole format space)"),
    "S4-C02-pos-write-guard": ("C02", "independent sub-agent (round 4)",
        "output with compressed -> dense -> compressed levels (sds...); a stored upper coordinate starting with empty fibres after an earlier stored entry",
        "C02 unreadable-pos-uninit (pipeline target sweep: every target format of the order-3 copy)"),
    "S4-C03-outer-flag-on-fill": ("C03", "independent sub-agent (round 4)",
        "ssd-like output (two compressed levels above a trailing dense one); a fill arm running in a slice with no real entry below it (dense level above a compressed one in the operand, empty fibre)",
        "missed at first (the quick target sweep used one operand format, d0s1s2, whose fibres are never empty); C03 phantom after the sweep got operand formats with a dense level above a compressed one"),
    "S4-C04-sparse-walk-assemble": ("C04", "independent sub-agent (round 4)",
        "separate assemble; >= 2 consecutive dense output levels directly above a compressed one (dds, sdds...); operand compressed at the upper dense level's index; an empty slice",
        "C04 unreadable / assemble-structure-differs (pos entries left uninitialised)"),
    "S4-C05-bucket-no-sparse-layer": ("C05", "independent sub-agent (round 4)",
        "separate assemble + compute; compressed output level; a terminal under a node that already receives a bucket (sum of contractions / nested contractions)",
        "C05 fault-oob-write-in-compute through the assemble/compute histories now shared with C04"),
    "S4-C06-llvm-fast-flags": ("C06", "independent sub-agent (round 4)",
        "two or more non-dyadic literals in one associative chain with a tensor operand; non-integer values (LLVM folds the constants, C and the IR round twice)",
        "C06 c-vs-llvm bits differ (inexact-literal group, arbitrary-double stage)"),
    "S4-C07-counting-loop": ("C07", "independent sub-agent (round 4)",
        "IR-level program: while (i < n) { i = i + 1 } entered with i > n, i read afterwards",
        "C07 memory-differs (counted-loop statement trees of IRGen.tla; the pure counting-loop idioms were added while the seed was being confirmed)"),
    "S4-C08-trailing-target-no-output": ("C08", "independent sub-agent (round 4)",
        "a trailing target index that the right-hand side (or one whole additive term) does not mention, stored in a compressed output level",
        "C08 undocumented-outcome NotImplementedError (exhaustive small pool of Problems.tla)"),
    "S4-C09-dok-cache-alias": ("C09", "independent sub-agent (round 4)",
        "to_dok(explicit_zeros=True), then editing the returned dict, then reading the same tensor again",
        "missed by construction before (no accessor result was ever edited); C09 after the aliasing check (every accessor result is scrambled, then everything is read again)"),
    "S4-C10-zero-size-unset": ("C10", "independent sub-agent (round 4)",
        "a shared index whose first-visited participant has size 0 and a later one a non-zero size",
        "missed by construction before (dimension faults were +-1 on sizes >= 2); C10 after the dimzero fault was added to CallProtocol.tla"),
    "S4-C11-input-ordering-inverse": ("C11", "independent sub-agent (round 4)",
        "an operand of order >= 3 whose mode ordering is a 3-cycle (not its own inverse)", "C11 wrong-value / crash (order-3 simulation of Operators.tla)"),
    "S4-C12-order-zero-falsy": ("C12", "independent sub-agent (round 4)",
        "a tensor first referenced with zero indexes and later with one or more (B() + B(i))", "C12 invalid-assignment-accepted"),
    "S4-C13-pos-shrink-live": ("C13", "independent sub-agent (round 4)",
        "sds-like output with enough stored entries that the shrunk pos block is smaller than what is read back",
        "C02 unreadable-pos-short / C05 handed-back-pos-short (the array is too short for the structure it describes); C13 was silent at first (outputs of order <= 1); after the sds output kind and the live-extent check were added it reports it too (process dies reading the shrunk array)"),
    "S4-C14-recent-request-memo": ("C14", "independent sub-agent (round 4)",
        "two threads calling evaluate / operators with different requests, at least one repeating its own request, a GIL switch inside the memo's key computation",
        "C14 operator hammer rounds (different requests repeated by 16 threads at a 1 us switch interval)"),
    "S4-C15-evaluate-memo-key": ("C15", "independent sub-agent (round 4)",
        "the same assignment and output format evaluated twice with the formats of two same-order inputs exchanged and the keywords in the other order",
        "missed by construction before; C15 result-depends-on-cache after the exchanged-formats scenario was added"),
    "S4-C16-bucket-contraction-dense": ("C16", "independent sub-agent (round 4)",
        "a second contraction nested inside a bucket that still holds a dense output layer; that index compressed in every operand",
        "C16 work-depends-on-dimension"),
    "S5-C03-always-writes": ("C03", "independent sub-agent (round 5)",
        "(a) a compressed output level with two more loop levels below it, one addend sparse at the middle level and dense at the inner one, the other the reverse, an empty slice; (b) a dense loop of length 0 directly below a compressed output level",
        "C03 phantom (machine; zero-sized dimensions of the input plans: trigger b)"),
    "S5-C04-sum-assemble-guard": ("C04", "independent sub-agent (round 5)",
        "separate assemble; an addition containing a contraction (sum node) into an output with >= 2 compressed levels; an inner coordinate (not the first of its row) contributed only by a later term",
        "missed twice (no such shape; then the machine reported the seeded kernel's boolean comparison as unsupported-node, an inconclusive verdict that also skipped the native history); C04 fault-oob-write-in-compute after the sum-order2 group, half-filled inputs, boolean (in)equality in IRMachine.tla and native histories for inconclusive kernels"),
    "S5-C07-isclose-literals": ("C07", "independent sub-agent (round 5)",
        "a float literal that is tiny but non-zero (<= 1e-12) or almost but not exactly one, in the IR / in the assignment text",
        "C07 optimised-kernel-differs-on-float-inputs (tiny / almost-one literals were added to the inexact-literal group after reading the report: the exact dyadic machine cannot hold them, the native unoptimised-vs-optimised stage can)"),
    "S5-C09-full-node-crd": ("C09", "independent sub-agent (round 5)",
        "a compressed level whose node holds exactly `dimension` distinct indexes, one of them out of range",
        "C09 out-of-range-not-rejected"),
    "S5-C10-extra-named-like-target": ("C10", "independent sub-agent (round 5)",
        "an extra keyword argument that carries the name of the assignment's target tensor",
        "missed by construction before (the extra argument was always called zz9); C10 kernel-entered-on-inconsistent-arguments after the fault was added to CallProtocol.tla"),
    "S5-C13-handles-in-method": ("C13", "independent sub-agent (round 5)",
        "an output that outlives its compiled kernel (TensorMethod dropped, or evicted from the cache after 128 other kernels)",
        "C13 freed-while-referenced / process dies (missed by construction before: no history ever dropped a kernel; the DropKernels action and a per-call TensorMethod for the reordered kind were added after reading the report)"),
    "S5-C14-shared-scalar-operand": ("C14", "independent sub-agent (round 5)",
        "two threads doing tensor-with-Python-number arithmetic with different numbers at the same time",
        "C14 operator hammer rounds (same mechanism as S3-C11, written independently)"),
    "S5-C15-format-mention-order": ("C15", "independent sub-agent (round 5)",
        "every tensor given a format explicitly, in an order that differs from the order of appearance",
        "missed by construction before (a request always listed its formats in one order); C15 text-not-a-pure-function after requests are also issued with the formats mentioned in reverse"),
}


def main():
    for sid, (prop, origin, needs, det) in TABLE.items():
        d = ROOT / sid
        if not d.is_dir():
            print("missing", sid)
            continue
        runs = []
        for p in sorted(d.glob("check_*.log")):
            t = p.read_text().splitlines()
            v = [l for l in t if l.startswith("VIOLATION")]
            first = None
            for i, l in enumerate(t):
                if l.startswith("VIOLATION") and i + 1 < len(t):
                    first = t[i + 1].strip()[:400]
                    break
            summary = next((l for l in reversed(t) if re.search(r" (quick|thorough): (OK|VIOLATED)", l)), t[-1] if t else "")
            runs.append({"check": p.stem.replace("check_", ""), "violation_lines": len(v), "summary": summary[:300], "first_violation": first})
        suite = (d / "suite.log").read_text().strip().splitlines()[-1] if (d / "suite.log").exists() else "see NOTES.md"
        clean = (d / "demo_clean.log").exists()
        meta = {"seed": sid, "breaks_property": prop, "origin": origin, "needs_to_manifest": needs, "detection": det,
                "confirmed": {"stable_suite_with_change": suite, "demo_exit_unchanged": 0 if clean else None,
                              "demo_exit_changed": "non-zero (see demo_seeded.log)"},
                "checks_run": runs, "how_run": "tools/seedtest.sh with VERIF_REPO=<changed worktree> (quick tier)"}
        (d / "meta.json").write_text(json.dumps(meta, indent=1))
        print(sid, [(r["check"], r["violation_lines"]) for r in runs])


if __name__ == "__main__":
    sys.exit(main())
