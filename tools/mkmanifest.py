#!/usr/bin/env python3
"""Regenerates MANIFEST.json from the table below (one source of truth for the interface)."""
import json
import pathlib

ROOT = pathlib.Path(__file__).resolve().parents[1]
PROPS = [json.loads(l)["id"] for l in open(ROOT / "properties.jsonl")]

TRUST = ("Trusted: TLC; the JSON image of the IR dataclasses (generic field dump, round-trip checked); the machine's "
         "memory model (tied to the real back ends by replaying every safe behaviour natively); exact dyadic values; "
         "bounded dimensions (<= 3, C16: x10^4 on compressed-only dimensions) and seeded samples of formats/inputs.")

CHECKS = {
    "C01": dict(engine="tla-kernelrun", technique="TLA+ model checking (TLC) of the real IR on an abstract machine, judged by TensorAlgebra!Denote; native replay + trace validation (observe)",
                text="Every evaluate kernel the working tree generates for the catalogue (all mechanisms of the anchors, several spellings) x seeded format assignments is executed as data on a TLA+ small-step machine for the IR, and the halted state is judged by the declarative oracle TensorAlgebra!Denote; each safe behaviour is replayed into the real LLVM/C kernels (raw arrays must be equal), and many more native executions are validated as implementation traces by the same TLA+ judge. Inputs: seeded samples plus, for small kernels, every stored subset chosen by TLC; formats: all-dense, all-compressed, seeded ones cycling through every target pattern, and every target format for copy-like shapes; assignments: the catalogue plus ones derived by Problems.tla. The contraction placement is additionally specified on its own (Desugar.tla, model-checked against Denote); a tree of the real desugar_assignment that deviates from it is judged by what it computes (DesugarTrace.tla), not by its shape. AlgebraLaws.tla model-checks that Denote is invariant under commuting, re-bracketing, distributing and renaming and that a non-zero value has structural support. Bounded, not a proof."),
    "C02": dict(engine="tla-kernelrun", technique="TLA+ model checking of the real IR; Storage.tla well-formedness on the machine heap and on native raw arrays (trace validation)",
                text="Same exploration restricted to outputs with a compressed level: the structure read back from the machine heap (and from the real kernels' raw arrays) must satisfy Storage!LevelDefect = \"\" for every level and every described cell must be live and initialised."),
    "C03": dict(engine="tla-kernelrun", technique="TLA+ model checking of the real IR; TensorAlgebra!SupportAt vs stored prefixes per compressed level",
                text="Same exploration: for each compressed output level every stored prefix must be the prefix of a coordinate with structural support, computed by TensorAlgebra!SupportAt over the stored sets of the packed inputs."),
    "C04": dict(engine="tla-kernelrun", technique="TLA+ model checking of assemble/compute/evaluate histories (freeze, revalue) + native history trace validation",
                text="Each behaviour takes the three IR functions of one generated module through evaluate; assemble; freeze; compute; re-value; compute; re-value(0); compute on the abstract machine; structure arrays are read-only and vals non-reallocatable for compute, results are compared with evaluate and with Denote. For a few small kernels TLC chooses the stored subset of every operand, so the history runs on every input pattern. The same history is run on the real LLVM module (also for kernels the machine cannot judge) and validated as a trace."),
    "C05": dict(engine="tla-kernelrun", technique="TLA+ model checking: every state of every behaviour of the real IR checked against a heap model (IRMachine fault states)",
                text="The real IR is model-checked state by state: every load/store/realloc against a heap model with bounds, initialisation, liveness and ownership, every integer operation against int32, a step budget for termination; handed-back arrays must be live, long enough and initialised, nothing kernel-allocated unreachable. Initial capacities 1,2 (thorough 1,2,3,2^20). Native crashes are taken back to the machine. Assemble and compute kernels: the memory faults of the C04 histories (assemble; freeze; compute; re-value; compute) on the same machine. The sub-graph lattice of generate_subgraphs and its emission order are specified in Structure.tla and compared exhaustively with the real function; a deviation is a NOTE and the request exercising it is judged on the machine on every input pattern (only that verdict can be a violation)."),
    "C06": dict(engine="tla-kernelrun", technique="spec->code replay: IRMachine behaviours and IRGen.tla trees through the real ir_to_c/ir_to_llvm, compiled and compared",
                text="(a) every safe machine behaviour is replayed into the LLVM-JIT kernel and the gcc-compiled C kernel of the same request; raw output arrays must equal the machine's final heap and each other bit for bit. (b) well-typed expression and statement trees generated by IRGen.tla (exhaustive to depth 1, simulated to depth 3-4) are printed by the real printers, compiled by gcc and LLVM and must reproduce IRMachine's values on several environments (only trees built from node kinds that occur in generated kernels: the property quantifies over problems). (c) outside the model's exact value domain: both back ends on arbitrary finite doubles, bit for bit."),
    "C07": dict(engine="tla-kernelrun", technique="TLA+ observational equivalence (IRMachine, judge equiv) of programs before/after the real peephole pass",
                text="(a) unoptimised vs optimised module of every selected kernel, same initial memory: equal return value, output image, memory, and access-set inclusion, decided on the abstract machine. (b) IRGen.tla trees (expressions, statements, and the arm-similarity / re-declaration shapes of Root stmtR) -> the real peephole -> pairs judged on all chosen environments. (c) unoptimised vs optimised LLVM kernels on arbitrary finite doubles (numerical equality). The oracle is semantic equivalence, not the rule list."),
    "C16": dict(engine="tla-kernelrun", technique="TLA+ self-composition on IRMachine counters (judge scale), applicability by TensorAlgebra!SparseOnlyIndex",
                text="For every selected kernel with a sparse-only index the evaluate IR is run on identical stored entries with that dimension x1, x3 and x10^4; executed statements and loop iterations must be equal. Counters are the machine's; native time is not measured. Context.is_sparse is specified in Structure.tla; a deviation is a NOTE and the requests exercising it are judged by the same scale judge."),
}

HOOKS = {
    "guard": "TENSORA_VERIF",
    "enable": "no source hooks: the checks patch module attributes of the tree under test from outside, inside their own "
              "processes (initial array capacity, recording wrappers), and only there; ./check exports TENSORA_VERIF=1",
    "baseline_off_cmd": "cd /repo && /venv/bin/python -m pytest -q -p no:cacheprovider --timeout=900 tests tests_cffi fuzz_tests/test_parsing.py",
    "source_commits": [],
    "add_only": True,
}

ENGINES = [
    {"name": "tla-kernelrun", "path": "spec/KernelRun.tla", "serves_properties": ["C01", "C02", "C03", "C04", "C05", "C06", "C07", "C16"],
     "kind_free_text": "TLA+ small-step machine for tensora's IR (IRMachine.tla) executing the real compiler output as data, judged by TensorAlgebra.tla / Storage.tla; bound to the code by native replay and trace validation; IRGen.tla generates IR trees"},
]


def main():
    extra = {}
    p = ROOT / "tools" / "manifest_extra.json"
    if p.exists():
        extra = json.loads(p.read_text())
    checks_tab = dict(CHECKS)
    checks_tab.update(extra.get("checks", {}))
    engines = ENGINES + extra.get("engines", [])
    checks = []
    for pid in PROPS:
        if pid not in checks_tab:
            continue
        c = checks_tab[pid]
        checks.append({
            "property_id": pid, "quick_cmd": f"./check {pid} --tier quick", "thorough_cmd": f"./check {pid} --tier thorough",
            "evidence_file": f"/verif/evidence/{pid}.json", "replay_cmd_template": f"./check {pid} --replay {{path}}",
            "engine": c["engine"],
            "level_claimed": {"category": c.get("category", "model_checking"), "text": c["text"], "design_ref": f"DESIGN.md section 4, {pid}"},
            "level_note": c.get("note", TRUST), "technique": c["technique"],
        })
    na = [{"property_id": pid, "reason": extra.get("not_applicable", {}).get(pid, "check under construction (see DESIGN.md section 4)")}
          for pid in PROPS if pid not in checks_tab]
    m = {"version": 1, "setup_cmd": "./setup.sh", "hooks": HOOKS, "engines": engines, "checks": checks, "not_applicable": na,
         "notes": "All checks: ./check <id> --tier quick|thorough; exit 0 ok / 1 violation / 2 machinery failure. See DESIGN.md."}
    (ROOT / "MANIFEST.json").write_text(json.dumps(m, indent=1))
    print("checks:", [c["property_id"] for c in checks], "not_applicable:", [x["property_id"] for x in na])


if __name__ == "__main__":
    main()
