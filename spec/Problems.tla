------------------------------ MODULE Problems ------------------------------
(***************************************************************************)
(* The request universe of kernel generation and the protocol its answer   *)
(* must follow (C08; also the source of requests for C15).                 *)
(*                                                                         *)
(* A derivation machine: choose the target (order 0..MaxOrder, any index   *)
(* tuple incl. a repeated index), grow the right-hand side leftmost-hole   *)
(* first (tensor accesses of any index tuple incl. diagonal, a tensor may  *)
(* be reused with the same order, literals incl. one beyond int32), then   *)
(* a format for every tensor in order of appearance (every modes x         *)
(* ordering combination), a non-empty set of kernel kinds, a language, an  *)
(* entry point and an identifier spelling class.  Every complete request   *)
(* is printed with its text (conventional parenthesisation) and with what  *)
(* the answer may be:                                                      *)
(*   allowed  = the outcome classes the property permits for this request  *)
(*   diagonal / broadcast = why a refusal may (not must) occur             *)
(* Which of Code / NoKernelFoundError is returned is NOT predicted: the    *)
(* search for a kernel is deliberately left open, so an improved search    *)
(* raises no alarm.                                                        *)
(***************************************************************************)
EXTENDS Storage, Json

CONSTANTS TensorPool,   \* e.g. {"b", "c"}
          IndexPool,    \* e.g. {"i", "j", "k"}
          MaxOrder, MaxLeaves, Literals, Entries, AllKinds,
          Diagonals,    \* FALSE: no index repeated inside one access
          Spells        \* subset of {0, 1}: identifier spelling classes

VARIABLES stage, target, rhs, fmts, pending, kinds, lang, entry, spell
vars == <<stage, target, rhs, fmts, pending, kinds, lang, entry, spell>>

Node(op, s, kids) == [op |-> op, s |-> s, idx |-> <<>>, kids |-> kids]
HoleN == Node("Hole", "", <<>>)
TensorN(name, idx) == [Node("T", name, <<>>) EXCEPT !.idx = idx]
LitN(text) == Node("L", text, <<>>)

IxSet == IndexPool
Tuples(n) == [1..n -> IxSet]
AllTuples == {t \in UNION {Tuples(n) : n \in 0..MaxOrder} :
                 Diagonals \/ Cardinality({t[i] : i \in 1..Len(t)}) = Len(t)}

RECURSIVE Holes(_), LeafCount(_), LeavesOf(_)
Holes(t) == IF t.op = "Hole" THEN 1 ELSE IF t.kids = <<>> THEN 0 ELSE Holes(t.kids[1]) + Holes(t.kids[2])
LeafCount(t) == IF t.op \in {"Hole", "T", "L"} THEN 1 ELSE LeafCount(t.kids[1]) + LeafCount(t.kids[2])
LeavesOf(t) == CASE t.op = "T" -> <<t>> [] t.op \in {"L", "Hole"} -> <<>> [] OTHER -> LeavesOf(t.kids[1]) \o LeavesOf(t.kids[2])

RECURSIVE Fill(_, _)
Fill(t, s) == IF t.op = "Hole" THEN s
              ELSE IF Holes(t.kids[1]) > 0 THEN [t EXCEPT !.kids[1] = Fill(t.kids[1], s)]
              ELSE [t EXCEPT !.kids[2] = Fill(t.kids[2], s)]

\* a tensor may be reused only with the order of its earlier uses (otherwise the assignment is not valid text)
OrderOK(t, name, n) == \A i \in 1..Len(LeavesOf(t)) : LeavesOf(t)[i].s = name => Len(LeavesOf(t)[i].idx) = n

LitSet == IF Literals THEN {LitN("0"), LitN("1"), LitN("2"), LitN("2.5"), LitN("3.0"), LitN("2147483648")} ELSE {}

Init == /\ stage = "target" /\ target = HoleN /\ rhs = HoleN /\ fmts = <<>> /\ pending = <<>>
        /\ kinds = {} /\ lang = "" /\ entry = "" /\ spell = 0

PickTarget == /\ stage = "target"
              /\ \E ix \in AllTuples : target' = TensorN("a", ix)
              /\ stage' = "expr" /\ UNCHANGED <<rhs, fmts, pending, kinds, lang, entry, spell>>

Grow ==
  /\ stage = "expr" /\ Holes(rhs) > 0
  /\ \/ \E nm \in TensorPool : \E ix \in AllTuples :
           /\ OrderOK(rhs, nm, Len(ix))
           /\ rhs' = Fill(rhs, TensorN(nm, ix))
     \/ \E l \in LitSet : rhs' = Fill(rhs, l)
     \/ /\ LeafCount(rhs) < MaxLeaves
        /\ \E o \in {"+", "-", "*"} : rhs' = Fill(rhs, Node(o, "", <<HoleN, HoleN>>))
  /\ UNCHANGED <<stage, target, fmts, pending, kinds, lang, entry, spell>>

\* tensors in order of first appearance (target first), like make_problem
RECURSIVE Dedup(_, _)
Dedup(sq, seen) == IF sq = <<>> THEN <<>>
                   ELSE IF Head(sq).s \in seen THEN Dedup(Tail(sq), seen)
                   ELSE <<Head(sq)>> \o Dedup(Tail(sq), seen \cup {Head(sq).s})
TensorsInOrder == Dedup(<<target>> \o LeavesOf(rhs), {})

StartFormats == /\ stage = "expr" /\ Holes(rhs) = 0
                /\ pending' = TensorsInOrder /\ stage' = "formats"
                /\ UNCHANGED <<target, rhs, fmts, kinds, lang, entry, spell>>

PickFormat == /\ stage = "formats" /\ pending # <<>>
              /\ \E f \in Formats(Len(Head(pending).idx)) :
                    fmts' = Append(fmts, [name |-> Head(pending).s, fmt |-> f])
              /\ pending' = Tail(pending)
              /\ UNCHANGED <<stage, target, rhs, kinds, lang, entry, spell>>

KindSets == IF AllKinds THEN (SUBSET {"assemble", "compute", "evaluate"}) \ {{}}
            ELSE {{"evaluate"}, {"compute"}, {"assemble", "compute"}}
PickRest == /\ stage = "formats" /\ pending = <<>>
            /\ \E ks \in KindSets : \E lg \in {"c", "llvm"} : \E en \in Entries : \E sp \in Spells :
                  /\ (en \in {"method", "evaluate"} => ks = {"evaluate"} /\ lg = "llvm")
                  /\ kinds' = ks /\ lang' = lg /\ entry' = en /\ spell' = sp
            /\ stage' = "done" /\ UNCHANGED <<target, rhs, fmts, pending>>

Next == PickTarget \/ Grow \/ StartFormats \/ PickFormat \/ PickRest
Spec == Init /\ [][Next]_vars

--------------------------------------------------------------------------
(* Text and the protocol *)
Rename(nm) == IF spell = 0 THEN nm
              ELSE CASE nm = "a" -> "Out1" [] nm = "b" -> "B2x" [] nm = "c" -> "cC" [] nm = "d" -> "D"
                     [] nm = "i" -> "i0" [] nm = "j" -> "J" [] nm = "k" -> "kk" [] nm = "l" -> "L9" [] OTHER -> nm

RECURSIVE Join(_, _)
Join(sq, sep) == IF sq = <<>> THEN "" ELSE IF Len(sq) = 1 THEN sq[1] ELSE sq[1] \o sep \o Join(Tail(sq), sep)
Prec(t) == CASE t.op \in {"+", "-"} -> 1 [] t.op = "*" -> 2 [] OTHER -> 3
RECURSIVE Text(_)
Text(t) ==
  CASE t.op = "T" -> Rename(t.s) \o "(" \o Join([i \in 1..Len(t.idx) |-> Rename(t.idx[i])], ",") \o ")"
    [] t.op = "L" -> t.s
    [] OTHER -> LET l == t.kids[1] r == t.kids[2]
                    lt == IF Prec(l) < Prec(t) THEN "(" \o Text(l) \o ")" ELSE Text(l)
                    rt == IF Prec(r) <= Prec(t) THEN "(" \o Text(r) \o ")" ELSE Text(r)
                IN lt \o " " \o t.op \o " " \o rt

Repeats(ix) == Cardinality({ix[i] : i \in 1..Len(ix)}) # Len(ix)
Diagonal == Repeats(target.idx) \/ \E i \in 1..Len(LeavesOf(rhs)) : Repeats(LeavesOf(rhs)[i].idx)
RhsIndexes == UNION {{LeavesOf(rhs)[i].idx[j] : j \in 1..Len(LeavesOf(rhs)[i].idx)} : i \in 1..Len(LeavesOf(rhs))}
Broadcast == \E j \in 1..Len(target.idx) : target.idx[j] \notin RhsIndexes
Callable == entry \in {"method", "evaluate"}

Allowed == {"Code", "NoKernelFoundError"}
           \cup (IF Diagonal THEN {"DiagonalAccessError"} ELSE {})
           \cup (IF Broadcast /\ Callable THEN {"BroadcastTargetIndexError"} ELSE {})

FmtText(f) == Join([l \in 1..Len(f.modes) |-> f.modes[l] \o ToString(f.ordering[l])], "")

Line == [text |-> Text(target) \o " = " \o Text(rhs),
         formats |-> [i \in 1..Len(fmts) |-> <<Rename(fmts[i].name), FmtText(fmts[i].fmt)>>],
         kinds |-> SetToSeq(kinds), lang |-> lang, entry |-> entry,
         allowed |-> SetToSeq(Allowed), diagonal |-> Diagonal, broadcast |-> Broadcast,
         leaves |-> LeafCount(rhs)]
Emit == stage # "done" \/ PrintT("@@" \o ToJson(Line))
=============================================================================
