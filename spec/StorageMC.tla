----------------------------- MODULE StorageMC -----------------------------
(***************************************************************************)
(* Model-checks the oracle itself: for every format of order <= MaxOrder,  *)
(* every dimension vector over 0..MaxDim and every stored coordinate set   *)
(* (positional values, optionally one explicit zero):                      *)
(*   T1  WellFormed(Pack(c))                                               *)
(*   T2  Decode(Pack(c)) restricted to DOMAIN c = c, every other decoded   *)
(*       cell is a zero under a dense level                                *)
(*   T3  Pack(ContentOf(Pack(c))) = Pack(c)   (Pack is canonical)          *)
(* The case is drawn in Next steps (not in Init) so TLC's workers share    *)
(* the enumeration.                                                        *)
(***************************************************************************)
EXTENDS Storage

CONSTANTS MaxOrder, MaxDim

VARIABLES stage, n, fmt, dims, content
vars == <<stage, n, fmt, dims, content>>

AllCoords(ds) == {c \in [1..Len(ds) -> 0..(MaxDim - 1)] : \A d \in 1..Len(ds) : c[d] < ds[d]}

Init == stage = "order" /\ n = 0 /\ fmt = <<>> /\ dims = <<>> /\ content = <<>>

PickOrder == /\ stage = "order"
             /\ \E k \in 0..MaxOrder : n' = k
             /\ stage' = "format" /\ UNCHANGED <<fmt, dims, content>>
PickFormat == /\ stage = "format"
              /\ \E f \in Formats(n) : fmt' = f
              /\ stage' = "dims" /\ UNCHANGED <<n, dims, content>>
PickDims == /\ stage = "dims"
            /\ \E ds \in [1..n -> 0..MaxDim] : dims' = ds
            /\ stage' = "content" /\ UNCHANGED <<n, fmt, content>>
PickContent ==
  /\ stage = "content"
  /\ \E S \in SUBSET AllCoords(dims) : \E z \in BOOLEAN :
        LET sq == SortSeqs(S)
            val(c) == LET i == CHOOSE j \in 1..Len(sq) : sq[j] = c IN
                      IF z /\ i = 1 THEN DZero ELSE DInt(i)
        IN content' = [c \in S |-> val(c)]
  /\ stage' = "judge" /\ UNCHANGED <<n, fmt, dims>>

Next == PickOrder \/ PickFormat \/ PickDims \/ PickContent
Spec == Init /\ [][Next]_vars

P == Pack(content, fmt, dims)
T1 == stage = "judge" => WellFormed(P, fmt, dims)
T2 == stage = "judge" =>
        LET D == Decode(P, fmt, dims) IN
        /\ \A c \in DOMAIN content : <<c, content[c]>> \in D
        /\ \A p \in D : InRangeCoord(p[1], dims) /\ (p[1] \notin DOMAIN content => p[2] = DZero)
        /\ Cardinality(D) = Cardinality({p[1] : p \in D})
T3 == stage = "judge" => Pack(ContentOf(P, fmt, dims), fmt, dims) = P
\* a compressed-only format stores exactly the supplied coordinates
T4 == stage = "judge" /\ n > 0 /\ (\A l \in 1..n : fmt.modes[l] = "s") => StoredCoords(P, fmt, dims) = DOMAIN content
=============================================================================
