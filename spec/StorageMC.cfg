SPECIFICATION Spec
CONSTANTS
  MaxOrder = 3
  MaxDim = 2
INVARIANT T1
INVARIANT T2
INVARIANT T3
INVARIANT T4
CHECK_DEADLOCK FALSE
