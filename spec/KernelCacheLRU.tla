-------------------------- MODULE KernelCacheLRU --------------------------
(***************************************************************************)
(* The kernel cache as the code has it today: functools.lru_cache of the   *)
(* size the process reports (a DESCRIPTIVE model, not a property).         *)
(*                                                                         *)
(* Hits, misses and evictions of the recorded Lookup / CacheClear events   *)
(* must be exactly those of an LRU of MaxSize entries per process, a hit   *)
(* returns the kernel stored for the key, a miss a kernel no live entry    *)
(* holds.  Property C15 does not prescribe a cache policy ("caching is     *)
(* invisible"), so a trace this module rejects is reported as a NOTE by    *)
(* harness/vf/checks/c15.py (evidence: lru_model_conforms), never as a     *)
(* violation; what the property does demand is in CacheDeterminism.tla.    *)
(* Generated / Cli / Result events are skipped.                            *)
(***************************************************************************)
EXTENDS Integers, Sequences, FiniteSets, TLC, Json, IOUtils

Trace == JsonDeserialize(IOEnv.VF_TRACE)
\* capacity of the kernel cache: cache_info().maxsize as reported by the real process (first event of the trace)
MaxSize == Trace[1].maxsize

VARIABLES l, code, cache, result
vars == <<l, code, cache, result>>

E == Trace[l]
IsEvent(e) == l <= Len(Trace) /\ Trace[l].ev = e /\ l' = l + 1

Init == l = 2 /\ code = <<>> /\ cache = <<>> /\ result = <<>>

Bind(f, k, v) == IF k \in DOMAIN f THEN f[k] = v ELSE TRUE
Put(f, k, v) == IF k \in DOMAIN f THEN f ELSE (k :> v) @@ f

Skip == /\ l <= Len(Trace) /\ Trace[l].ev \in {"Generated", "Cli", "Result"} /\ l' = l + 1
        /\ UNCHANGED <<code, cache, result>>

ProcCache(pr) == IF pr \in DOMAIN cache THEN cache[pr] ELSE [order |-> <<>>, kernel |-> <<>>]
Remove(sq, x) == SelectSeq(sq, LAMBDA y : y # x)

Lookup ==
  /\ IsEvent("Lookup")
  /\ LET c == ProcCache(E.proc)
         present == E.rawkey \in DOMAIN c.kernel IN
     /\ E.hit = present                                              \* hits and misses exactly as an LRU of MaxSize predicts
     /\ present => c.kernel[E.rawkey] = E.kernel                        \* a hit returns the kernel compiled for this key
     /\ ~present => \A k \in DOMAIN c.kernel : c.kernel[k] # E.kernel  \* a fresh kernel is not shared with another problem
     /\ LET order1 == Append(Remove(c.order, E.rawkey), E.rawkey)
            evict == Len(order1) > MaxSize
            order2 == IF evict THEN Tail(order1) ELSE order1
            kern1 == (E.rawkey :> E.kernel) @@ c.kernel
            kern2 == IF evict THEN [k \in DOMAIN kern1 \ {Head(order1)} |-> kern1[k]] ELSE kern1
        IN cache' = (E.proc :> [order |-> order2, kernel |-> kern2]) @@ cache
  /\ UNCHANGED <<code, result>>

CacheClear ==
  /\ IsEvent("CacheClear")
  /\ cache' = (E.proc :> [order |-> <<>>, kernel |-> <<>>]) @@ cache
  /\ UNCHANGED <<code, result>>

Next == Skip \/ Lookup \/ CacheClear
Spec == Init /\ [][Next]_vars

\* Acceptance (POSTCONDITION, -workers 1, deadlock checking off): the machine is deterministic, so the diameter of
\* the explored graph is the number of consumed events + 1 (event 1 is the Meta record, consumed by Init).  A rejection names the first event that does not fit.
TraceAccepted ==
  LET d == TLCGet("stats").diameter IN
  IF d = Len(Trace) THEN PrintT("@@" \o ToJson([accepted |-> TRUE, events |-> Len(Trace)]))
  ELSE PrintT("@@" \o ToJson([accepted |-> FALSE, stuck_at |-> d + 1, event |-> Trace[d + 1]])) /\ FALSE
=============================================================================
