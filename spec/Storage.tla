------------------------------ MODULE Storage ------------------------------
(***************************************************************************)
(* Level-format storage of tensors (the taco_tensor_t representation).     *)
(*                                                                         *)
(* A format is a record [modes, ordering]: modes[l] \in {"d","s"} is the   *)
(* kind of level l (1-based), ordering[l] the 0-based dimension that level *)
(* l stores.  A tensor's abstract content is a function from coordinates   *)
(* (tuples in DIMENSION order, 0-based entries) to dyadic values; a        *)
(* coordinate in the domain whose value is zero is a stored explicit zero. *)
(*                                                                         *)
(* Pack   : content  -> stored structure (the canonical one)               *)
(* Decode : stored structure -> set of <<coordinate, value>> it stores     *)
(* WellFormed : the contract a stored structure must meet                  *)
(*                                                                         *)
(* This module is the oracle of C02 and C09 and the loader of every kernel *)
(* input on the IR abstract machine.  StorageMC.tla model-checks the       *)
(* theorems WellFormed(Pack(c)), Decode(Pack(c)) = c (fill = 0) and        *)
(* Pack(Decode(st)) = st.                                                  *)
(***************************************************************************)
EXTENDS Integers, Sequences, FiniteSets, TLC, SequencesExt, FiniteSetsExt, Functions, Dyadic

RECURSIVE Perms(_)
Perms(S) == IF S = {} THEN {<<>>} ELSE UNION {{<<x>> \o p : p \in Perms(S \ {x})} : x \in S}

Formats(n) == {[modes |-> m, ordering |-> o] : m \in [1..n -> {"d", "s"}], o \in Perms(0..(n-1))}

Order(fmt) == Len(fmt.modes)

IsFormat(fmt) == /\ Len(fmt.modes) = Len(fmt.ordering)
                 /\ \A l \in 1..Len(fmt.modes) : fmt.modes[l] \in {"d", "s"}
                 /\ {fmt.ordering[l] : l \in 1..Len(fmt.ordering)} = 0..(Len(fmt.modes) - 1)

\* coordinate (dimension order) -> level order
ToLevel(c, fmt) == [l \in 1..Len(fmt.ordering) |-> c[fmt.ordering[l] + 1]]
\* full level prefix -> coordinate in dimension order: uses the INVERSE of ordering
FromLevel(q, fmt) == [d \in 1..Len(q) |-> q[CHOOSE l \in 1..Len(q) : fmt.ordering[l] = d - 1]]

LevelDim(fmt, dims, l) == dims[fmt.ordering[l] + 1]

Prefix(q, l) == SubSeq(q, 1, l)

RECURSIVE LexLess(_, _)
LexLess(a, b) == IF a = <<>> THEN FALSE
                 ELSE IF Head(a) # Head(b) THEN Head(a) < Head(b) ELSE LexLess(Tail(a), Tail(b))

SortSeqs(S) == SetToSortSeq(S, LexLess)

InRangeCoord(c, dims) == /\ Len(c) = Len(dims)
                         /\ \A d \in 1..Len(dims) : c[d] >= 0 /\ c[d] < dims[d]

(***************************************************************************)
(* Pack, level by level.  `parents' is the sequence of level prefixes      *)
(* (positions) of the previous level in storage order.                     *)
(***************************************************************************)
Children(stored, par, l) == {Prefix(q, l) : q \in {s \in stored : Prefix(s, l - 1) = par}}

RECURSIVE PackFrom(_, _, _, _, _)
PackFrom(stored, fmt, dims, l, parents) ==
  IF l > Len(fmt.modes) THEN [levels |-> <<>>, final |-> parents]
  ELSE IF fmt.modes[l] = "d"
  THEN LET d == LevelDim(fmt, dims, l)
           next == FlattenSeq([i \in 1..Len(parents) |-> [k \in 1..d |-> Append(parents[i], k - 1)]])
           rest == PackFrom(stored, fmt, dims, l + 1, next)
       IN [levels |-> << <<>> >> \o rest.levels, final |-> rest.final]
  ELSE LET kids == [i \in 1..Len(parents) |-> SortSeqs(Children(stored, parents[i], l))]
           next == FlattenSeq(kids)
           RECURSIVE acc(_)
           acc(i) == IF i = 0 THEN <<0>> ELSE LET a == acc(i - 1) IN Append(a, a[Len(a)] + Len(kids[i]))
           pos == acc(Len(parents))
           crd == [i \in 1..Len(next) |-> next[i][l]]
           rest == PackFrom(stored, fmt, dims, l + 1, next)
       IN [levels |-> << <<pos, crd>> >> \o rest.levels, final |-> rest.final]

Pack(content, fmt, dims) ==
  LET stored == {ToLevel(c, fmt) : c \in DOMAIN content}
      r == PackFrom(stored, fmt, dims, 1, << <<>> >>)
  IN [levels |-> r.levels,
      vals |-> [i \in 1..Len(r.final) |->
                  LET c == FromLevel(r.final[i], fmt) IN IF c \in DOMAIN content THEN content[c] ELSE DZero]]

(***************************************************************************)
(* Decode: every <<coordinate, value>> a structure stores (explicit zeros  *)
(* and the dense fill included).  PrefixesAt gives the stored level        *)
(* prefixes of length `upto' (what a compressed level l "stores").         *)
(***************************************************************************)
RECURSIVE Walk(_, _, _, _, _, _)
Walk(st, fmt, dims, l, q, p) ==
  IF l = Len(fmt.modes) THEN {<<FromLevel(q, fmt), st.vals[p + 1]>>}
  ELSE IF fmt.modes[l + 1] = "d"
       THEN LET d == LevelDim(fmt, dims, l + 1) IN
            UNION {Walk(st, fmt, dims, l + 1, Append(q, k), p * d + k) : k \in 0..(d - 1)}
       ELSE LET pos == st.levels[l + 1][1] crd == st.levels[l + 1][2] IN
            UNION {Walk(st, fmt, dims, l + 1, Append(q, crd[j + 1]), j) : j \in pos[p + 1]..(pos[p + 2] - 1)}

Decode(st, fmt, dims) == Walk(st, fmt, dims, 0, <<>>, 0)

RECURSIVE PrefixWalk(_, _, _, _, _, _, _)
PrefixWalk(levels, fmt, dims, l, upto, q, p) ==
  IF l = upto THEN {q}
  ELSE IF fmt.modes[l + 1] = "d"
       THEN LET d == LevelDim(fmt, dims, l + 1) IN
            UNION {PrefixWalk(levels, fmt, dims, l + 1, upto, Append(q, k), p * d + k) : k \in 0..(d - 1)}
       ELSE LET pos == levels[l + 1][1] crd == levels[l + 1][2] IN
            UNION {PrefixWalk(levels, fmt, dims, l + 1, upto, Append(q, crd[j + 1]), j) : j \in pos[p + 1]..(pos[p + 2] - 1)}

PrefixesAt(levels, fmt, dims, upto) == PrefixWalk(levels, fmt, dims, 0, upto, <<>>, 0)

StoredCoords(st, fmt, dims) == {FromLevel(q, fmt) : q \in PrefixesAt(st.levels, fmt, dims, Len(fmt.modes))}

\* the content function a structure denotes (requires duplicate-free storage)
ContentOf(st, fmt, dims) ==
  LET D == Decode(st, fmt, dims) IN [c \in {p[1] : p \in D} |-> (CHOOSE p \in D : p[1] = c)[2]]

(***************************************************************************)
(* Well-formedness of a stored structure.                                  *)
(***************************************************************************)
RECURSIVE NPos(_, _, _, _)
NPos(levels, fmt, dims, l) == IF l = 0 THEN 1
                              ELSE IF fmt.modes[l] = "d" THEN NPos(levels, fmt, dims, l - 1) * LevelDim(fmt, dims, l)
                              ELSE Len(levels[l][2])

LevelOK(levels, fmt, dims, l) ==
  fmt.modes[l] = "s" =>
     LET pos == levels[l][1] crd == levels[l][2] IN
     /\ Len(pos) = NPos(levels, fmt, dims, l - 1) + 1
     /\ pos[1] = 0
     /\ \A i \in 1..(Len(pos) - 1) : pos[i] <= pos[i + 1]
     /\ Len(crd) = pos[Len(pos)]
     /\ \A i \in 1..Len(crd) : crd[i] >= 0 /\ crd[i] < LevelDim(fmt, dims, l)
     /\ \A i \in 1..(Len(pos) - 1) : \A j \in (pos[i] + 1)..(pos[i + 1] - 1) : crd[j] < crd[j + 1]

\* name of the first clause that fails, "" when well-formed
LevelDefect(levels, fmt, dims, l) ==
  IF fmt.modes[l] = "d" THEN (IF levels[l] # <<>> THEN "level-shape" ELSE "")
  ELSE IF Len(levels[l]) # 2 THEN "level-shape"
  ELSE LET pos == levels[l][1] crd == levels[l][2] IN
       IF Len(pos) # NPos(levels, fmt, dims, l - 1) + 1 THEN "pos-length"
       ELSE IF pos[1] # 0 THEN "pos-start"
       ELSE IF \E i \in 1..(Len(pos) - 1) : pos[i] > pos[i + 1] THEN "pos-decreasing"
       ELSE IF Len(crd) # pos[Len(pos)] THEN "crd-length"
       ELSE IF \E i \in 1..Len(crd) : crd[i] < 0 \/ crd[i] >= LevelDim(fmt, dims, l) THEN "crd-range"
       ELSE IF \E i \in 1..(Len(pos) - 1) : \E j \in (pos[i] + 1)..(pos[i + 1] - 1) : crd[j] >= crd[j + 1] THEN "crd-unsorted"
       ELSE ""

WellFormed(st, fmt, dims) ==
  /\ Len(st.levels) = Len(fmt.modes)
  /\ \A l \in 1..Len(fmt.modes) : LevelOK(st.levels, fmt, dims, l)
  /\ Len(st.vals) = NPos(st.levels, fmt, dims, Len(fmt.modes))
=============================================================================
