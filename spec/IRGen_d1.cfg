SPECIFICATION Spec
CONSTANTS
  Root = "int"
  ExprDepth = 1
  StmtDepth = 1
  Leaves = "full"
INVARIANT Emit
CHECK_DEADLOCK FALSE
