---------------------------- MODULE OwnershipInd ----------------------------
(***************************************************************************)
(* The ownership design of Ownership.tla (C13) with an INDUCTIVE invariant *)
(* discharged by Apalache - for histories of ANY length (TLC explores      *)
(* Ownership.tla only up to MaxLen actions).                               *)
(*                                                                         *)
(* Same state without the history variable: bind (name -> kind, tensor),   *)
(* nmade (tensors created so far), kernel (ids whose arrays a kernel       *)
(* malloc'ed), freed, nfree.  Same actions (Evaluate, EvaluateWith, Alias, *)
(* StructRef, Iter, Consume, Read, Pickle, Del, Collect, Release); user    *)
(* actions wait for pending releases exactly as in Ownership.tla (Quiet).  *)
(*                                                                         *)
(*   apalache-mc check --init=Init    --inv=IndInv --length=0   (base)     *)
(*   apalache-mc check --init=IndInit --inv=IndInv --length=1   (step)     *)
(*   apalache-mc check --init=IndInit --inv=Safety --length=0   (implies)  *)
(* Bounds: 3 names, at most MaxT = 6 tensor ids (a size bound on the state, *)
(* not on the length of the history).  Run by ./check C13 --tier thorough  *)
(* (harness/vf/checks/c13.py), reported in the evidence as obligations.    *)
(***************************************************************************)
EXTENDS Integers, FiniteSets

Names == {"n1", "n2", "n3"}
MaxT == 6
Kinds == {"none", "tensor", "struct", "iter"}

VARIABLES
  \* @type: Str -> { k: Str, t: Int };
  bind,
  \* @type: Int;
  nmade,
  \* @type: Set(Int);
  kernel,
  \* @type: Set(Int);
  freed,
  \* @type: Int -> Int;
  nfree

None == [k |-> "none", t |-> 0]
Ids == 1..MaxT

Reachable(t) == \E n \in Names : bind[n].t = t /\ bind[n].k \in {"tensor", "struct", "iter"}
Garbage == {t \in kernel : ~Reachable(t) /\ t \notin freed}
Quiet == Garbage = {}

Init == /\ bind = [n \in Names |-> None] /\ nmade = 0 /\ kernel = {} /\ freed = {}
        /\ nfree = [t \in Ids |-> 0]

NewTensor(n, isKernel) ==
  /\ nmade < MaxT
  /\ nmade' = nmade + 1
  /\ kernel' = IF isKernel THEN kernel \union {nmade + 1} ELSE kernel
  /\ bind' = [bind EXCEPT ![n] = [k |-> "tensor", t |-> nmade + 1]]
  /\ UNCHANGED <<freed, nfree>>

Evaluate(n) == Quiet /\ NewTensor(n, TRUE)
EvaluateWith(n, m) == Quiet /\ bind[m].k = "tensor" /\ NewTensor(n, TRUE)
Pickle(n, m) == Quiet /\ bind[m].k = "tensor" /\ NewTensor(n, FALSE)
Alias(n, m) == /\ Quiet /\ n # m /\ bind[m].k \in {"tensor", "struct"}
               /\ bind' = [bind EXCEPT ![n] = bind[m]] /\ UNCHANGED <<nmade, kernel, freed, nfree>>
StructRef(n, m) == /\ Quiet /\ bind[m].k = "tensor"
                   /\ bind' = [bind EXCEPT ![n] = [k |-> "struct", t |-> bind[m].t]]
                   /\ UNCHANGED <<nmade, kernel, freed, nfree>>
Iter(n, m) == /\ Quiet /\ n # m /\ bind[m].k \in {"tensor", "struct"}
              /\ bind' = [bind EXCEPT ![n] = [k |-> "iter", t |-> bind[m].t]]
              /\ UNCHANGED <<nmade, kernel, freed, nfree>>
Consume(n) == /\ Quiet /\ bind[n].k = "iter"
              /\ bind' = [bind EXCEPT ![n] = None] /\ UNCHANGED <<nmade, kernel, freed, nfree>>
Read(n) == Quiet /\ bind[n].k \in {"tensor", "struct"} /\ UNCHANGED <<bind, nmade, kernel, freed, nfree>>
Del(n) == /\ Quiet /\ bind[n].k # "none"
          /\ bind' = [bind EXCEPT ![n] = None] /\ UNCHANGED <<nmade, kernel, freed, nfree>>
Release(t) == /\ t \in Garbage
              /\ freed' = freed \union {t}
              /\ nfree' = [nfree EXCEPT ![t] = @ + 1]
              /\ UNCHANGED <<bind, nmade, kernel>>

Next == \/ \E n \in Names : Evaluate(n) \/ Read(n) \/ Del(n) \/ Consume(n)
        \/ \E n \in Names : \E m \in Names : EvaluateWith(n, m) \/ Alias(n, m) \/ StructRef(n, m) \/ Pickle(n, m) \/ Iter(n, m)
        \/ \E t \in Ids : Release(t)

--------------------------------------------------------------------------
TypeOK == /\ bind \in [Names -> [k : Kinds, t : 0..MaxT]]
          /\ nmade \in 0..MaxT
          /\ kernel \in SUBSET Ids /\ freed \in SUBSET Ids
          /\ nfree \in [Ids -> 0..1]

IndInv ==
  /\ TypeOK
  /\ \A n \in Names : (bind[n].k = "none" <=> bind[n].t = 0) /\ bind[n].t <= nmade
  /\ \A t \in kernel : t <= nmade
  /\ freed \subseteq kernel
  /\ \A t \in Ids : nfree[t] = IF t \in freed THEN 1 ELSE 0
  /\ \A t \in freed : ~Reachable(t)

\* any state satisfying the invariant (Apalache picks it symbolically)
IndInit == IndInv

\* the safety properties of Ownership.tla follow from the invariant
NoUseAfterFree == \A t \in Ids : Reachable(t) => t \notin freed
FreedAtMostOnce == \A t \in Ids : nfree[t] <= 1
OnlyKernelArraysFreed == freed \subseteq kernel
NoLeak == Garbage = {} => freed = {t \in kernel : ~Reachable(t)}
Safety == NoUseAfterFree /\ FreedAtMostOnce /\ OnlyKernelArraysFreed /\ NoLeak
=============================================================================
