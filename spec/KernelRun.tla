----------------------------- MODULE KernelRun -----------------------------
(***************************************************************************)
(* The model-checking harness around IRMachine.                            *)
(*                                                                         *)
(* A case (IOEnv.VF_CASES, produced by the Python harness from the real    *)
(* compiler's output) names the tensors of one problem, their formats and  *)
(* index lists, one or more dimension assignments and valuations, and a    *)
(* SCRIPT: the history this behaviour takes the real IR through.           *)
(*                                                                         *)
(*   load(val, dims)  build the memory image: every input tensor is        *)
(*                    Storage!Pack'ed from its abstract content, the       *)
(*                    output tensor is a fresh taco_tensor_t whose         *)
(*                    growable arrays are NULL.  val = 0 lets TLC choose   *)
(*                    any stored subset of the case's `gen' cells.         *)
(*   loadraw          memory image given literally (generic IR programs)   *)
(*   reload           rebuild the memory from the current content          *)
(*   run(prog, track) execute one IR function to completion on IRMachine   *)
(*   snap             record the output image + counters                   *)
(*   freeze           what the caller promises compute: structure arrays   *)
(*                    become read-only, vals non-reallocatable             *)
(*   revalue(val|map) replace the input VALUES, same structure             *)
(*   observe(k)       take the k-th output RECORDED from the real kernel   *)
(*                    (raw pos/crd/vals arrays) as the snapshot: the judge *)
(*                    then validates an implementation trace               *)
(*                                                                         *)
(* When the script ends (or a run faults) the behaviour is judged by the   *)
(* operators below against TensorAlgebra / Storage and one verdict line is *)
(* printed:  @@{json}.  Judges: single (C01 C02 C03 C05), history (C04),   *)
(* scale (C16), equiv (C07, C06).                                          *)
(***************************************************************************)
EXTENDS IRMachine, SequencesExt, FiniteSetsExt, Functions

S == INSTANCE Storage
TA == INSTANCE TensorAlgebra

Cases == JsonDeserialize(IOEnv.VF_CASES)

VARIABLES case, phase, content, dimset, snaps, fin
vars == <<mvars, case, phase, content, dimset, snaps, fin>>
kvars == <<case, phase, content, dimset, snaps, fin>>

C == Cases[case]
Script == C.script
Op == Script[phase]
Names == C.names
NameSet == {Names[i] : i \in 1..Len(Names)}
Target == C.target
HasTarget == Target # ""
InNames == SelectSeq(Names, LAMBDA nm : nm # Target)
Dims == C.dimsets[dimset]
TDims(nm) == [j \in 1..Len(C.tensors[nm].idx) |-> Dims[C.tensors[nm].idx[j]]]
Fmt(nm) == C.tensors[nm].fmt

--------------------------------------------------------------------------
(* Contents *)
ContentFn(sq) == [c \in {sq[i][1] : i \in 1..Len(sq)} |-> sq[CHOOSE i \in 1..Len(sq) : sq[i][1] = c][2]]
ContentSeq(f) == LET cs == S!SortSeqs(DOMAIN f) IN [i \in 1..Len(cs) |-> <<cs[i], f[cs[i]]>>]

FixedContent(v) == [nm \in {InNames[i] : i \in 1..Len(InNames)} |-> ContentFn(C.vals[v][nm])]

GenOne(nm) == LET g == C.gen[nm] IN
              {[c \in {g.cells[i] : i \in Sub} |-> g.vals[CHOOSE i \in Sub : g.cells[i] = c]] :
                  Sub \in SUBSET (1..Len(g.cells))}
RECURSIVE GenAll(_)
GenAll(ns) == IF ns = <<>> THEN {<<>>}
              ELSE {(Head(ns) :> ct) @@ rest : ct \in GenOne(Head(ns)), rest \in GenAll(Tail(ns))}

MapValue(m, v) == CASE m = "zero" -> DZero
                    [] m = "triple" -> DMul(v, DInt(3))
                    [] m = "negate" -> DNeg(v)
                    [] m = "half" -> DMul(v, [n |-> 1, e |-> 1])
MapContent(m, ct) == [nm \in DOMAIN ct |-> [c \in DOMAIN ct[nm] |-> MapValue(m, ct[nm][c])]]

--------------------------------------------------------------------------
(* Building the memory image *)
P(b) == [b |-> b, o |-> 0]
Blk(data, own) == [len |-> Len(data), live |-> TRUE, own |-> own, data |-> data]

RECURSIVE AddInLevels(_, _, _, _, _)
AddInLevels(bs, fmt, levels, l, ptrs) ==
  IF l > Len(fmt.modes) THEN [blocks |-> bs, ptrs |-> ptrs]
  ELSE IF fmt.modes[l] = "d"
  THEN AddInLevels(Append(bs, Blk(<<>>, "in")), fmt, levels, l + 1, Append(ptrs, P(Len(bs) + 1)))
  ELSE LET b3 == bs \o << Blk(levels[l][1], "in"), Blk(levels[l][2], "in"),
                          Blk(<<P(Len(bs) + 1), P(Len(bs) + 2)>>, "in") >>
       IN AddInLevels(b3, fmt, levels, l + 1, Append(ptrs, P(Len(bs) + 3)))

RECURSIVE AddOutLevels(_, _, _, _)
AddOutLevels(bs, fmt, l, ptrs) ==
  IF l > Len(fmt.modes) THEN [blocks |-> bs, ptrs |-> ptrs]
  ELSE IF fmt.modes[l] = "d"
  THEN AddOutLevels(Append(bs, Blk(<<>>, "in")), fmt, l + 1, Append(ptrs, P(Len(bs) + 1)))
  ELSE AddOutLevels(Append(bs, Blk(<<NULL, NULL>>, "out")), fmt, l + 1, Append(ptrs, P(Len(bs) + 1)))

\* M = [blocks, tens]; ds = the dimension assignment; ct = content of the inputs
AddTensor(M, nm, ds, ct) ==
  LET fmt == Fmt(nm)
      td == [j \in 1..Len(C.tensors[nm].idx) |-> ds[C.tensors[nm].idx[j]]]
      b1 == Append(M.blocks, Blk(td, "in"))
      dimp == P(Len(b1))
  IN IF nm = Target
     THEN LET r == AddOutLevels(b1, fmt, 1, <<>>)
              b2 == Append(r.blocks, Blk(r.ptrs, "in"))
          IN [blocks |-> b2,
              tens |-> (nm :> [dimensions |-> dimp, indices |-> P(Len(b2)), vals |-> NULL, ro |-> FALSE]) @@ M.tens]
     ELSE LET st == S!Pack(ct[nm], fmt, td)
              r == AddInLevels(b1, fmt, st.levels, 1, <<>>)
              b2 == Append(r.blocks, Blk(r.ptrs, "in"))
              b3 == Append(b2, Blk(st.vals, "in"))
          IN [blocks |-> b3,
              tens |-> (nm :> [dimensions |-> dimp, indices |-> P(Len(b2)), vals |-> P(Len(b3)), ro |-> TRUE]) @@ M.tens]

RECURSIVE BuildFrom(_, _, _, _)
BuildFrom(M, ns, ds, ct) == IF ns = <<>> THEN M ELSE BuildFrom(AddTensor(M, Head(ns), ds, ct), Tail(ns), ds, ct)
Build(ds, ct) == BuildFrom([blocks |-> <<>>, tens |-> <<>>], Names, ds, ct)

ContentOK(ds, ct) == \A nm \in DOMAIN ct :
                        LET td == [j \in 1..Len(C.tensors[nm].idx) |-> ds[C.tensors[nm].idx[j]]] IN
                        \A c \in DOMAIN ct[nm] : S!InRangeCoord(c, td)

--------------------------------------------------------------------------
(* Reading the output tensor back from the heap *)
OFmt == Fmt(Target)
ODims == TDims(Target)
OOrder == Len(OFmt.modes)

CellsOK(p, n) == /\ p.b >= 1 /\ p.b <= Len(blocks) /\ blocks[p.b].live
                 /\ p.o >= 0 /\ p.o + n <= blocks[p.b].len
                 /\ \A i \in 1..n : (p.o + i) \in DOMAIN blocks[p.b].data
CellsWhy(p, n) == IF p.b = 0 THEN "null"
                  ELSE IF p.b < 1 \/ p.b > Len(blocks) THEN "wild"
                  ELSE IF ~blocks[p.b].live THEN "dead"
                  ELSE IF p.o < 0 \/ p.o + n > blocks[p.b].len THEN "short"
                  ELSE IF \E i \in 1..n : (p.o + i) \notin DOMAIN blocks[p.b].data THEN "uninit"
                  ELSE ""
CellSeq(p, n) == [i \in 1..n |-> blocks[p.b].data[p.o + i]]

\* read the levels; np = number of positions of the previous level.
\* returns [why, levels, np, reach]; why = "" when every described cell could be read
RECURSIVE ReadLevels(_, _)
ReadLevels(l, np) ==
  IF l > OOrder THEN [why |-> "", levels |-> <<>>, np |-> np, reach |-> {}]
  ELSE IF OFmt.modes[l] = "d"
  THEN LET r == ReadLevels(l + 1, np * S!LevelDim(OFmt, ODims, l)) IN
       [why |-> r.why, levels |-> << <<>> >> \o r.levels, np |-> r.np, reach |-> r.reach]
  ELSE LET ip == tens[Target].indices
           w0 == CellsWhy([b |-> ip.b, o |-> ip.o + l - 1], 1) IN
       IF w0 # "" THEN [why |-> "indices-" \o w0, levels |-> <<>>, np |-> 0, reach |-> {}]
       ELSE LET pair == blocks[ip.b].data[ip.o + l]
                w1 == CellsWhy(pair, 2) IN
            IF w1 # "" THEN [why |-> "level-" \o w1, levels |-> <<>>, np |-> 0, reach |-> {}]
            ELSE LET pp == blocks[pair.b].data[pair.o + 1]
                     cp == blocks[pair.b].data[pair.o + 2]
                     w2 == CellsWhy(pp, np + 1) IN
                 IF w2 # "" THEN [why |-> "pos-" \o w2, levels |-> <<>>, np |-> 0, reach |-> {}]
                 ELSE LET pos == CellSeq(pp, np + 1)
                          n == pos[np + 1] IN
                      IF n < 0 THEN [why |-> "pos-negative", levels |-> <<>>, np |-> 0, reach |-> {}]
                      ELSE LET w3 == IF n = 0 /\ cp.b = 0 THEN "" ELSE CellsWhy(cp, n) IN
                           IF w3 # "" THEN [why |-> "crd-" \o w3, levels |-> <<>>, np |-> 0, reach |-> {}]
                           ELSE LET crd == IF n = 0 THEN <<>> ELSE CellSeq(cp, n)
                                    r == ReadLevels(l + 1, n) IN
                                [why |-> r.why, levels |-> << <<pos, crd>> >> \o r.levels, np |-> r.np,
                                 reach |-> r.reach \cup {pp.b, cp.b}]

\* needVals = FALSE after assemble (the value array is sized but not written yet)
ReadOut(needVals) ==
  LET r == ReadLevels(1, 1) IN
  IF r.why # "" THEN [why |-> r.why, levels |-> <<>>, vals |-> <<>>, reach |-> {}]
  ELSE LET vp == tens[Target].vals
           wv == IF needVals THEN CellsWhy(vp, r.np)
                 ELSE IF vp.b = 0 THEN (IF r.np = 0 THEN "" ELSE "null")
                 ELSE IF ~blocks[vp.b].live THEN "dead"
                 ELSE IF vp.o + r.np > blocks[vp.b].len THEN "short" ELSE "" IN
       IF wv # "" THEN [why |-> "vals-" \o wv, levels |-> r.levels, vals |-> <<>>, reach |-> {}]
       ELSE [why |-> "", levels |-> r.levels, vals |-> IF needVals THEN CellSeq(vp, r.np) ELSE <<>>,
             reach |-> r.reach \cup {vp.b}]

Leaked(reach) == {b \in 1..Len(blocks) : blocks[b].live /\ blocks[b].own = "kernel" /\ b \notin reach}

Snapshot(needVals) ==
  LET img == IF HasTarget THEN ReadOut(needVals) ELSE [why |-> "", levels |-> <<>>, vals |-> <<>>, reach |-> {}] IN
  [steps |-> steps, iters |-> iters, acc |-> acc,
   why |-> img.why, levels |-> img.levels, vals |-> img.vals,
   leaked |-> Cardinality(Leaked(img.reach)),
   lens |-> [b \in 1..Len(blocks) |-> blocks[b].len],
   pre |-> [b \in 1..C.npre |-> blocks[b].data], ct |-> content,
   ret |-> IF "$ret" \in DOMAIN env THEN env["$ret"] ELSE 0]

--------------------------------------------------------------------------
(* The script *)
Init ==
  /\ case \in 1..Len(Cases)
  /\ phase = 1 /\ content = <<>> /\ dimset = 1 /\ snaps = <<>> /\ fin = FALSE
  /\ prog = 1 /\ pc = <<0>> /\ env = <<>> /\ blocks = <<>> /\ tens = <<>> /\ status = "idle"
  /\ steps = 0 /\ iters = 0 /\ acc = [r |-> {}, w |-> {}] /\ track = FALSE

Scripted(o) == ~fin /\ status = "idle" /\ phase <= Len(Script) /\ Op.op = o
Advance == phase' = phase + 1

Install(ds, ct) ==
  LET M == Build(ds, ct) IN
  /\ blocks' = M.blocks /\ tens' = M.tens
  /\ env' = [nm \in NameSet |-> nm]
  /\ content' = ct

Load ==
  /\ Scripted("load")
  /\ dimset' = Op.dims
  /\ \E ct \in (IF Op.val > 0 THEN {FixedContent(Op.val)} ELSE GenAll(InNames)) :
        IF ContentOK(C.dimsets[Op.dims], ct)
        THEN Install(C.dimsets[Op.dims], ct) /\ Advance /\ UNCHANGED <<fin, status>>
        ELSE /\ fin' = TRUE /\ status' = "bad-case"
             /\ UNCHANGED <<blocks, tens, env, content, phase>>
  /\ UNCHANGED <<case, snaps, prog, pc, steps, iters, acc, track>>

\* fresh memory for the current content, or (field "from") for the content recorded by an earlier snapshot
Reload ==
  /\ Scripted("reload")
  /\ Install(Dims, IF "from" \in DOMAIN Op THEN snaps[Op.from].ct ELSE content) /\ Advance
  /\ UNCHANGED <<case, dimset, snaps, fin, prog, pc, status, steps, iters, acc, track>>

LoadRaw ==
  /\ Scripted("loadraw")
  /\ blocks' = C.raw.blocks /\ tens' = C.raw.tens /\ env' = C.raw.env
  /\ Advance
  /\ UNCHANGED <<case, content, dimset, snaps, fin, prog, pc, status, steps, iters, acc, track>>

\* run takes two steps: select the function, then enter its body
Select ==
  /\ Scripted("run")
  /\ prog' = Op.prog /\ track' = Op.track /\ status' = "enter"
  /\ steps' = 0 /\ iters' = 0 /\ acc' = [r |-> {}, w |-> {}]
  /\ UNCHANGED <<pc, env, blocks, tens, kvars>>
Begin ==
  /\ ~fin /\ status = "enter"
  /\ pc' = Enter(<<>>) /\ status' = "run"
  /\ UNCHANGED <<prog, env, blocks, tens, steps, iters, acc, track, kvars>>
Step == ~fin /\ MStep /\ UNCHANGED kvars
RunDone ==
  /\ ~fin /\ status = "done"
  /\ status' = "idle" /\ Advance
  /\ UNCHANGED <<prog, pc, env, blocks, tens, steps, iters, acc, track, case, content, dimset, snaps, fin>>
RunFault ==
  /\ ~fin /\ status \notin {"idle", "enter", "run", "done"}
  /\ fin' = TRUE
  /\ UNCHANGED <<mvars, case, phase, content, dimset, snaps>>

Snap ==
  /\ Scripted("snap")
  /\ snaps' = Append(snaps, Snapshot(Op.vals))
  /\ Advance
  /\ UNCHANGED <<mvars, case, content, dimset, fin>>

\* the caller hands the assembled output to compute
Freeze ==
  /\ Scripted("freeze")
  /\ LET img == ReadOut(FALSE)
         vb == tens[Target].vals.b IN
     blocks' = [b \in 1..Len(blocks) |->
                  IF b \in img.reach \ {vb} /\ blocks[b].own = "kernel" THEN [blocks[b] EXCEPT !.own = "frozen"]
                  ELSE IF b = vb /\ vb # 0 /\ blocks[b].own = "kernel" THEN [blocks[b] EXCEPT !.own = "vals"]
                  ELSE IF blocks[b].own = "out" THEN [blocks[b] EXCEPT !.own = "frozen"]
                  ELSE blocks[b]]
  /\ Advance
  /\ UNCHANGED <<prog, pc, env, tens, status, steps, iters, acc, track, case, content, dimset, snaps, fin>>

Revalue ==
  /\ Scripted("revalue")
  /\ LET ct == IF Op.val > 0 THEN FixedContent(Op.val) ELSE MapContent(Op.map, content)
         same == \A nm \in DOMAIN content : DOMAIN ct[nm] = DOMAIN content[nm] IN
     IF ~same THEN /\ fin' = TRUE /\ status' = "bad-case" /\ UNCHANGED <<blocks, content, phase>>
     ELSE /\ content' = ct
          /\ blocks' = [b \in 1..Len(blocks) |->
                          IF \E nm \in DOMAIN ct : tens[nm].vals.b = b
                          THEN LET nm == CHOOSE nm \in DOMAIN ct : tens[nm].vals.b = b IN
                               [blocks[b] EXCEPT !.data = S!Pack(ct[nm], Fmt(nm), TDims(nm)).vals]
                          ELSE blocks[b]]
          /\ Advance /\ UNCHANGED <<fin, status>>
  /\ UNCHANGED <<prog, pc, env, tens, steps, iters, acc, track, case, dimset, snaps>>

\* trace validation: an output recorded from the REAL kernel (raw arrays) is judged like a machine output
Observe ==
  /\ Scripted("observe")
  /\ snaps' = Append(snaps, [steps |-> 0, iters |-> 0, acc |-> [r |-> {}, w |-> {}], why |-> "",
                             levels |-> C.obs[Op.k].levels, vals |-> C.obs[Op.k].vals, leaked |-> 0,
                             lens |-> <<>>, pre |-> <<>>, ct |-> content, ret |-> 0])
  /\ Advance
  /\ UNCHANGED <<mvars, case, content, dimset, fin>>

Finish ==
  /\ ~fin /\ status = "idle" /\ phase > Len(Script)
  /\ fin' = TRUE
  /\ UNCHANGED <<mvars, case, phase, content, dimset, snaps>>

Next == Load \/ Reload \/ LoadRaw \/ Observe \/ Select \/ Begin \/ Step \/ RunDone \/ RunFault \/ Snap \/ Freeze \/ Revalue \/ Finish
Spec == Init /\ [][Next]_vars

--------------------------------------------------------------------------
(* Judging *)
Stored(nm) == S!StoredCoords(S!Pack(content[nm], Fmt(nm), TDims(nm)), Fmt(nm), TDims(nm))
StoredSets == [nm \in DOMAIN content |-> Stored(nm)]

OutSt(sn) == [levels |-> sn.levels, vals |-> sn.vals]

RECURSIVE FirstDefect(_, _)
FirstDefect(levels, l) ==
  IF l > OOrder THEN ""
  ELSE LET d == S!LevelDefect(levels, OFmt, ODims, l) IN IF d # "" THEN d ELSE FirstDefect(levels, l + 1)

\* C02: canonical, self-consistent
Canonical(sn) == IF sn.why # "" THEN "unreadable-" \o sn.why
                 ELSE IF Len(sn.levels) # OOrder THEN "level-count"
                 ELSE LET d == FirstDefect(sn.levels, 1) IN
                      IF d # "" THEN d
                      ELSE IF Len(sn.vals) # S!NPos(sn.levels, OFmt, ODims, OOrder) THEN "vals-length" ELSE ""

Coords == TA!TargetCoords(C.asg, Dims)

\* C01: decoded output = denotation; absent = 0; nothing stored outside the dimensions
MeaningC(sn, ct) ==
  LET got == S!Decode(OutSt(sn), OFmt, ODims) IN
  IF \E p \in got : p[1] \notin Coords THEN "stored-out-of-range"
  ELSE IF \A c \in Coords :
            LET v == TA!DenoteAt(C.asg, c, ct, Dims) IN
            IF \E p \in got : p[1] = c THEN (CHOOSE p \in got : p[1] = c)[2] = v ELSE v = DZero
       THEN "" ELSE "wrong-value"
Meaning(sn) == MeaningC(sn, content)

\* C03: per compressed level, every stored prefix is the prefix of a supported coordinate
NoPhantom(sn) ==
  LET sup == {S!ToLevel(c, OFmt) : c \in {c \in Coords : TA!SupportAt(C.asg, c, StoredSets, Dims)}} IN
  IF \A l \in 1..OOrder : OFmt.modes[l] = "s" =>
        \A q \in S!PrefixesAt(sn.levels, OFmt, ODims, l) : \E c \in sup : SubSeq(c, 1, l) = q
  THEN "" ELSE "phantom"

OK(s) == IF s = "" THEN "ok" ELSE s

Faulted == status \notin {"idle", "done"}

VSingle ==
  IF Faulted THEN [c05 |-> status, c01 |-> "n/a", c02 |-> "n/a", c03 |-> "n/a"]
  ELSE LET sn == snaps[Len(snaps)]
           can == Canonical(sn) IN
       [c05 |-> IF sn.why # "" THEN "handed-back-" \o sn.why ELSE IF sn.leaked > 0 THEN "leak" ELSE "ok",
        c02 |-> OK(can),
        c01 |-> IF can # "" THEN "n/a" ELSE OK(Meaning(sn)),
        c03 |-> IF can # "" THEN "n/a" ELSE OK(NoPhantom(sn))]

\* C04.  With M = C.nmaps re-valuations, snaps are: 1..M+1 evaluate(x1), evaluate(x2), ... (fresh memory each);
\* M+2 assemble(x1); M+3 compute(x1); M+4.. compute after each re-valuation.  compute must reproduce what evaluate
\* yields for the same inputs (the oracle of C04 is the evaluate kernel itself, not Denote - that is C01's business).
VHistory ==
  IF Faulted THEN [c04 |-> "fault-" \o status \o "-in-" \o Progs[prog].name.name, at |-> phase]
  ELSE LET M == C.nmaps
           e == snaps[1] a == snaps[M + 2]
           ev(i) == snaps[i]              \* i \in 1..M+1
           cp(i) == snaps[M + 2 + i]      \* i \in 1..M+1
       IN
       [c04 |-> IF \E i \in 1..Len(snaps) : snaps[i].why # "" THEN "unreadable"
                ELSE IF a.levels # e.levels THEN "assemble-structure-differs"
                ELSE IF cp(1).levels # e.levels THEN "compute-changed-structure"
                ELSE IF cp(1).vals # e.vals THEN "compute-values-differ"
                ELSE IF \E i \in 2..(M + 1) : cp(i).levels # a.levels THEN "recompute-changed-structure"
                ELSE IF \E i \in 2..(M + 1) : ev(i).levels = a.levels /\ cp(i).vals # ev(i).vals THEN "recompute-values-differ"
                ELSE IF \E i \in 1..(M + 1) : cp(i).lens # a.lens THEN "compute-reallocated"
                ELSE IF \E i \in 1..(M + 1) : cp(i).leaked > 0 THEN "compute-leaked"
                ELSE "ok",
        at |-> phase]

\* C16.  snaps: 1 = base dimensions, 2.. = enlarged sparse-only dimension
VScale ==
  IF ~TA!SparseOnlyIndex(C.asg, Target, [nm \in NameSet |-> Fmt(nm)], C.scaled)
  THEN [c16 |-> "not-applicable", base |-> 0, scaled |-> 0]
  ELSE IF Faulted THEN [c16 |-> IF Len(snaps) >= 1 /\ status = "step-budget" THEN "work-depends-on-dimension"
                                ELSE "fault-" \o status, base |-> 0, scaled |-> 0]
  ELSE [c16 |-> IF \A i \in 2..Len(snaps) : snaps[i].iters = snaps[1].iters /\ snaps[i].steps = snaps[1].steps
                THEN "ok" ELSE "work-depends-on-dimension",
        base |-> snaps[1].steps, scaled |-> snaps[Len(snaps)].steps]

\* C07 / C06: two programs from the same initial state.  snaps: 1 original, 2 transformed
Pre(sn) == sn.pre
VEquiv ==
  IF Len(snaps) = 0 THEN [eq |-> "original-" \o status]          \* the property says nothing here
  ELSE IF Faulted THEN [eq |-> "transformed-fault-" \o status]
  ELSE LET a == snaps[1] b == snaps[2]
           prer(s) == {x \in s : x[1] <= C.npre} IN
       [eq |-> IF a.ret # b.ret THEN "return-differs"
               ELSE IF a.why # b.why \/ a.levels # b.levels \/ a.vals # b.vals THEN "output-differs"
               ELSE IF a.pre # b.pre THEN "memory-differs"
               ELSE IF ~(prer(b.acc.r) \subseteq prer(a.acc.r)) THEN "extra-read"
               ELSE IF ~(prer(b.acc.w) \subseteq prer(a.acc.w)) THEN "extra-write"
               ELSE "ok"]

Verdict == CASE C.judge = "single" -> VSingle
             [] C.judge = "history" -> VHistory
             [] C.judge = "scale" -> VScale
             [] C.judge = "equiv" -> VEquiv
             [] C.judge = "raw" -> [eq |-> IF Faulted THEN "fault-" \o status ELSE "ok"]

PackedInputs == [nm \in DOMAIN content |-> S!Pack(content[nm], Fmt(nm), TDims(nm))]
LastOut == IF Len(snaps) = 0 THEN [why |-> "none", levels |-> <<>>, vals |-> <<>>]
           ELSE LET sn == snaps[Len(snaps)] IN [why |-> sn.why, levels |-> sn.levels, vals |-> sn.vals]

Line == [case |-> C.id, status |-> status, steps |-> steps, iters |-> iters, phase |-> phase,
         v |-> Verdict,
         content |-> [nm \in DOMAIN content |-> ContentSeq(content[nm])],
         packed |-> IF C.emit THEN PackedInputs ELSE <<>>,
         out |-> IF C.emit THEN LastOut ELSE <<>>,
         ret |-> IF Len(snaps) = 0 THEN 0 ELSE snaps[Len(snaps)].ret,
         nzsnaps |-> Cardinality({i \in 1..Len(snaps) : \E j \in 1..Len(snaps[i].vals) : snaps[i].vals[j] # DZero}),
         final |-> IF C.emitraw /\ Len(snaps) > 0 THEN snaps[Len(snaps)].pre ELSE <<>>]

Report == ~fin \/ PrintT("@@" \o ToJson(Line))

\* Every behaviour ends with a verdict: no state without a successor except fin
Progress == fin \/ ENABLED Next
=============================================================================
