----------------------------- MODULE Concurrency -----------------------------
(***************************************************************************)
(* Concurrent evaluate / tensor-method calls (C14).                        *)
(*                                                                         *)
(* Every thread performs one call.  The steps are the points where the     *)
(* real code touches shared state:                                         *)
(*   lookup        probe of the lru_cache of compiled kernels (hit/miss)   *)
(*   compile       TensorMethod.__init__ begins (miss only)                *)
(*   lock / unlock the module-level lock around FFI.compile (cffi only)    *)
(*   jit           the kernel object exists (LLVM engine / dlopen'ed lib)  *)
(*   insert        lru_cache stores it unless another thread already did   *)
(*                 (duplicate compilation is allowed, as in CPython)       *)
(*   alloc         allocate_taco_structure writes global_weakkeydict       *)
(*   enter / exit  the native kernel runs on this thread's arguments       *)
(*   own           take_ownership_of_arrays reads global_weakkeydict       *)
(*   ret           the call returns                                        *)
(* The module serves three purposes:                                       *)
(*  - Tracing = FALSE: TLC checks the invariants over all interleavings    *)
(*    (VIEW hides the schedule history);                                   *)
(*  - Tracing = FALSE with -simulate and EmitSchedule: prints schedules     *)
(*    (sequences of thread ids) that harness/vf/checks/c14.py replays      *)
(*    through the real evaluate with a deterministic scheduler;            *)
(*  - Tracing = TRUE: the events recorded from free-running threads        *)
(*    (IOEnv.VF_TRACE) must be a behaviour of the same actions.  Kernel    *)
(*    and struct identities are then taken from the log, and whether a     *)
(*    lookup hit is inferred by TLC (the recorder cannot observe the probe *)
(*    atomically, so the specification does not predict it).               *)
(***************************************************************************)
EXTENDS Integers, Sequences, FiniteSets, TLC, Json, IOUtils

CONSTANTS Threads,      \* e.g. {1, 2}
          ReqOf,        \* thread -> request name
          KeyOf,        \* request name -> problem key
          BackendOf,    \* request name -> "llvm" | "cffi"
          Warm,         \* set of keys already cached at the start (exhaustive mode)
          MaxSize, Tracing

VARIABLES pc, cache, lock, kern, kkey, nk, wkd, struct, ns, out, result, sched, l
vars == <<pc, cache, lock, kern, kkey, nk, wkd, struct, ns, out, result, sched, l>>

Key(t) == KeyOf[ReqOf[t]]
NoKernel == [id |-> 0, key |-> ""]
Alone(t) == <<Key(t), ReqOf[t]>>     \* what the call returns when made alone

Trace == IF Tracing THEN JsonDeserialize(IOEnv.VF_TRACE) ELSE <<>>
E == Trace[l]
\* in tracing mode an action is enabled only for the next recorded event
Ev(name, t) == IF Tracing THEN l <= Len(Trace) /\ Trace[l].ev = name /\ Trace[l].t = t /\ l' = l + 1 ELSE l' = l

Init ==
  /\ pc = [t \in Threads |-> "lookup"]
  /\ cache = [k \in Warm |-> [id |-> 0 - 1, key |-> k]]
  /\ lock = 0 /\ kern = [t \in Threads |-> NoKernel] /\ kkey = <<>> /\ nk = 0
  /\ wkd = {} /\ struct = [t \in Threads |-> 0] /\ ns = 0
  /\ out = <<>> /\ result = [t \in Threads |-> <<>>] /\ sched = <<>> /\ l = 1

Step(t, next) == pc' = [pc EXCEPT ![t] = next] /\ sched' = IF Tracing THEN sched ELSE Append(sched, t)

Lookup(t) ==
  /\ pc[t] = "lookup" /\ Ev("lookup", t)
  /\ IF Tracing
     THEN kern' = kern /\ (Step(t, "alloc") \/ Step(t, "compile"))        \* hit or miss: inferred from what follows
     ELSE IF Key(t) \in DOMAIN cache
          THEN kern' = [kern EXCEPT ![t] = cache[Key(t)]] /\ Step(t, "alloc")
          ELSE kern' = kern /\ Step(t, "compile")
  /\ UNCHANGED <<cache, lock, kkey, nk, wkd, struct, ns, out, result>>

\* In the design model the cffi critical section sits between compile and jit (where the code has it).  WHERE a tree
\* compiles is not part of the property (a tree may compile lazily on the first call): in tracing mode the critical
\* section may therefore be entered and left anywhere between the lookup and the return, any number of times; only
\* its mutual exclusion is demanded (FFI.compile is not thread safe).
Compile(t) ==
  /\ pc[t] = "compile" /\ Ev("compile", t)
  /\ Step(t, IF BackendOf[ReqOf[t]] = "cffi" /\ ~Tracing THEN "lock" ELSE "jit")
  /\ UNCHANGED <<cache, lock, kern, kkey, nk, wkd, struct, ns, out, result>>

Lock(t) == /\ IF Tracing THEN pc[t] \notin {"lookup", "done"} ELSE pc[t] = "lock"
           /\ lock = 0 /\ Ev("lock", t)
           /\ lock' = t /\ (IF Tracing THEN pc' = pc /\ sched' = sched ELSE Step(t, "unlock"))
           /\ UNCHANGED <<cache, kern, kkey, nk, wkd, struct, ns, out, result>>
Unlock(t) == /\ IF Tracing THEN TRUE ELSE pc[t] = "unlock"
             /\ lock = t /\ Ev("unlock", t)
             /\ lock' = 0 /\ (IF Tracing THEN pc' = pc /\ sched' = sched ELSE Step(t, "jit"))
             /\ UNCHANGED <<cache, kern, kkey, nk, wkd, struct, ns, out, result>>

Jit(t) == /\ pc[t] = "jit" /\ Ev("jit", t)
          /\ LET id == IF Tracing THEN E.kid ELSE nk + 1 IN
             /\ id \notin DOMAIN kkey                    \* a fresh kernel object
             /\ kkey' = (id :> Key(t)) @@ kkey
             /\ kern' = [kern EXCEPT ![t] = [id |-> id, key |-> Key(t)]]
          /\ nk' = nk + 1
          /\ Step(t, "insert")
          /\ UNCHANGED <<cache, lock, wkd, struct, ns, out, result>>

Insert(t) ==
  /\ pc[t] = "insert" /\ Ev("insert", t)
  /\ cache' = IF Key(t) \in DOMAIN cache \/ Cardinality(DOMAIN cache) >= MaxSize THEN cache
              ELSE (Key(t) :> kern[t]) @@ cache
  /\ Step(t, "alloc")
  /\ UNCHANGED <<lock, kern, kkey, nk, wkd, struct, ns, out, result>>

Alloc(t) == /\ pc[t] = "alloc" /\ Ev("alloc", t)
            /\ LET s == IF Tracing THEN E.sid ELSE ns + 1 IN
               /\ s \notin wkd                           \* a fresh struct
               /\ struct' = [struct EXCEPT ![t] = s] /\ wkd' = wkd \cup {s}
            /\ ns' = ns + 1
            /\ Step(t, "enter")
            /\ UNCHANGED <<cache, lock, kern, kkey, nk, out, result>>

\* tracing: the kernel and the struct that really enter the native call are taken from the log
Enter(t) == /\ pc[t] = "enter" /\ Ev("enter", t)
            /\ IF Tracing
               THEN /\ E.kid \in DOMAIN kkey
                    /\ kern' = [kern EXCEPT ![t] = [id |-> E.kid, key |-> kkey[E.kid]]]
                    /\ E.sid = struct[t]
               ELSE kern' = kern
            /\ Step(t, "exit")
            /\ UNCHANGED <<cache, lock, kkey, nk, wkd, struct, ns, out, result>>
Exit(t) == /\ pc[t] = "exit" /\ Ev("exit", t)
           /\ out' = (struct[t] :> <<kern[t].key, ReqOf[t]>>) @@ out
           /\ Step(t, "own")
           /\ UNCHANGED <<cache, lock, kern, kkey, nk, wkd, struct, ns, result>>
Own(t) == /\ pc[t] = "own" /\ struct[t] \in wkd /\ Ev("own", t)
          /\ (Tracing => E.sid = struct[t])
          /\ Step(t, "ret")
          /\ UNCHANGED <<cache, lock, kern, kkey, nk, wkd, struct, ns, out, result>>
\* tracing: `same' says whether the returned raw arrays equal those of the call made alone
Ret(t) == /\ pc[t] = "ret" /\ Ev("ret", t)
          /\ (Tracing => E.same)
          /\ result' = [result EXCEPT ![t] = out[struct[t]]]
          /\ Step(t, "done")
          /\ UNCHANGED <<cache, lock, kern, kkey, nk, wkd, struct, ns, out>>

Next == \E t \in Threads : Lookup(t) \/ Compile(t) \/ Lock(t) \/ Unlock(t) \/ Jit(t) \/ Insert(t)
                             \/ Alloc(t) \/ Enter(t) \/ Exit(t) \/ Own(t) \/ Ret(t)
Spec == Init /\ [][Next]_vars

--------------------------------------------------------------------------
KernelMatches == \A t \in Threads : pc[t] \in {"exit", "own", "ret", "done"} => kern[t].key = Key(t)
OwnMatches == \A t \in Threads : pc[t] = "own" => struct[t] \in wkd
LockMutex == Tracing \/ (Cardinality({t \in Threads : pc[t] = "unlock"}) <= 1 /\ (lock # 0 => pc[lock] = "unlock"))
CacheBound == Cardinality(DOMAIN cache) <= MaxSize
CacheSound == \A k \in DOMAIN cache : cache[k].key = k
Sequential == \A t \in Threads : pc[t] = "done" => result[t] = Alone(t)
NoSharedStruct == \A s, t \in Threads : s # t /\ struct[s] # 0 => struct[s] # struct[t]

AllDone == \A t \in Threads : pc[t] = "done"
View == <<pc, cache, lock, kern, kkey, nk, wkd, struct, ns, out, result>>
EmitSchedule == ~AllDone \/ PrintT("@@" \o ToJson([sched |-> sched]))

\* Trace validation: accepted iff some branch consumed every event.  The deepest level reached is the number of
\* consumed events + 1; a rejection names the first event no branch could take.
TraceAccepted ==
  LET d == TLCGet("stats").diameter IN
  IF d = Len(Trace) + 1 THEN PrintT("@@" \o ToJson([accepted |-> TRUE, events |-> Len(Trace)]))
  ELSE PrintT("@@" \o ToJson([accepted |-> FALSE, stuck_at |-> d, event |-> Trace[d]])) /\ FALSE
=============================================================================
