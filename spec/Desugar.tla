------------------------------- MODULE Desugar -------------------------------
(***************************************************************************)
(* Contraction placement (src/tensora/desugar/_desugar_expression.py) as a *)
(* specification of its own: where does each summed index get attached?    *)
(*                                                                         *)
(* Des(e, C) mirrors desugar_expression step by step: C is the set of      *)
(* indexes still to be contracted at or below e.                           *)
(*   tensor    : wrapped in a contraction for every index of C             *)
(*   l + r     : an index shared by both sides is hoisted above the sum    *)
(*               only if EVERY additive term of both sides mentions it;    *)
(*               otherwise it is pushed into the sides                     *)
(*   l - r     : l + (-1 * r), same rule                                   *)
(*   l * r     : an index shared by both sides is hoisted above the        *)
(*               product (unconditionally, as the code does)               *)
(* EvalD gives a desugared tree its value.  TLC draws small assignments    *)
(* (derivation machine) and checks, for every one and fixed inputs:        *)
(*   Correct      EvalD(Des(rhs)) = TensorAlgebra!DenoteAt  (the meaning)  *)
(* which holds exactly when the assignment is Distributable: no product    *)
(* has a shared contracted index that is missing from some additive term   *)
(* of BOTH factors.  For the other assignments the algorithm is wrong by   *)
(* design (known finding product-of-partial-sums); they are printed with   *)
(* distributable = FALSE so the harness can tell the two apart.            *)
(* Every assignment is printed with the model's desugared tree;            *)
(* harness/vf/checks/c01.py compares it with the real desugar_assignment   *)
(* (conformance of the code with this specification).                      *)
(***************************************************************************)
EXTENDS TensorAlgebra, Json

CONSTANTS MaxLeaves

VARIABLES stage, tidx, rhs
vars == <<stage, tidx, rhs>>

\* leaves of the generated right-hand sides and the fixed inputs they are evaluated on (dims: i = 2, k = 2, l = 2)
Leaf(name, idx) == [k |-> "T", name |-> name, idx |-> idx]
LeafPool == {Leaf("x", <<>>), Leaf("w", <<>>), Leaf("y", <<"k">>), Leaf("z", <<"k">>), Leaf("b", <<"i">>),
             Leaf("m", <<"i", "k">>), Leaf("v", <<"l">>), [k |-> "L", v |-> DInt(2)]}
HoleE == [k |-> "H"]
Dims == [i |-> 2, k |-> 2, l |-> 2]
Inputs == [x |-> (<<>> :> DInt(2)), w |-> (<<>> :> DInt(3)),
           y |-> (<<0>> :> DInt(5)) @@ (<<1>> :> DInt(7)), z |-> (<<0>> :> DInt(11)) @@ (<<1>> :> DInt(13)),
           b |-> (<<0>> :> DInt(17)) @@ (<<1>> :> DInt(19)),
           m |-> (<<0, 0>> :> DInt(23)) @@ (<<0, 1>> :> DInt(29)) @@ (<<1, 1>> :> DInt(31)),
           v |-> (<<0>> :> DInt(37)) @@ (<<1>> :> DInt(41))]

RECURSIVE Holes(_), Count(_), Fill(_, _)
Holes(e) == CASE e.k = "H" -> 1 [] e.k \in {"T", "L"} -> 0 [] OTHER -> Holes(e.l) + Holes(e.r)
Count(e) == CASE e.k \in {"H", "T", "L"} -> 1 [] OTHER -> Count(e.l) + Count(e.r)
Fill(e, s) == CASE e.k = "H" -> s
                [] e.k \in {"T", "L"} -> e
                [] OTHER -> IF Holes(e.l) > 0 THEN [e EXCEPT !.l = Fill(e.l, s)] ELSE [e EXCEPT !.r = Fill(e.r, s)]

Init == stage = "target" /\ tidx = <<>> /\ rhs = HoleE
PickTarget == /\ stage = "target"
              /\ \E t \in {<<>>, <<"i">>} : tidx' = t
              /\ stage' = "expr" /\ UNCHANGED rhs
Grow == /\ stage = "expr" /\ Holes(rhs) > 0
        /\ \/ \E lf \in LeafPool : rhs' = Fill(rhs, lf)
           \/ Count(rhs) < MaxLeaves /\ \E o \in {"+", "-", "*"} : rhs' = Fill(rhs, [k |-> o, l |-> HoleE, r |-> HoleE])
        /\ UNCHANGED <<stage, tidx>>
Finish == /\ stage = "expr" /\ Holes(rhs) = 0 /\ stage' = "done" /\ UNCHANGED <<tidx, rhs>>
Next == PickTarget \/ Grow \/ Finish
Spec == Init /\ [][Next]_vars

--------------------------------------------------------------------------
(* the algorithm *)
RECURSIVE InEvery(_, _)
InEvery(e, x) == CASE e.k = "T" -> x \in SeqSet(e.idx)
                   [] e.k = "L" -> FALSE
                   [] e.k \in {"+", "-"} -> InEvery(e.l, x) /\ InEvery(e.r, x)
                   [] e.k = "*" -> InEvery(e.l, x) \/ InEvery(e.r, x)

Wrap(d, C) == IF C = {} THEN d ELSE [k |-> "C", over |-> C, e |-> d]

RECURSIVE Des(_, _)
Des(e, C) ==
  CASE e.k = "T" -> Wrap([k |-> "T", name |-> e.name, idx |-> e.idx], C)
    [] e.k = "L" -> [k |-> "L", v |-> e.v]
    [] e.k \in {"+", "-"} ->
         LET li == ExprIndexes(e.l) \cap C  ri == ExprIndexes(e.r) \cap C
             inter == {x \in li \cap ri : InEvery(e.l, x) /\ InEvery(e.r, x)}
             dl == Des(e.l, li \ inter)  dr == Des(e.r, ri \ inter)
         IN Wrap([k |-> "+", l |-> dl, r |-> IF e.k = "+" THEN dr ELSE [k |-> "*", l |-> [k |-> "L", v |-> DInt(-1)], r |-> dr]], inter)
    [] e.k = "*" ->
         LET li == ExprIndexes(e.l) \cap C  ri == ExprIndexes(e.r) \cap C
             inter == li \cap ri
         IN Wrap([k |-> "*", l |-> Des(e.l, li \ inter), r |-> Des(e.r, ri \ inter)], inter)

RECURSIVE EvalD(_, _)
EvalD(d, env) ==
  CASE d.k = "T" -> LET key == [j \in 1..Len(d.idx) |-> env[d.idx[j]]] IN
                    IF key \in DOMAIN Inputs[d.name] THEN Inputs[d.name][key] ELSE DZero
    [] d.k = "L" -> d.v
    [] d.k = "+" -> DAdd(EvalD(d.l, env), EvalD(d.r, env))
    [] d.k = "*" -> DMul(EvalD(d.l, env), EvalD(d.r, env))
    [] d.k = "C" -> FoldSet(LAMBDA g, acc : DAdd(acc, EvalD(d.e, g @@ env)), DZero, Envs(d.over, Dims))

Asg == [tidx |-> tidx, rhs |-> rhs]
Contracted == ExprIndexes(rhs) \ SeqSet(tidx)
Desugared == Des(rhs, Contracted)

RECURSIVE Distributable(_, _)
Distributable(e, C) ==
  CASE e.k \in {"T", "L"} -> TRUE
    [] e.k \in {"+", "-"} -> Distributable(e.l, C) /\ Distributable(e.r, C)
    [] e.k = "*" -> /\ \A x \in C \cap ExprIndexes(e.l) \cap ExprIndexes(e.r) : InEvery(e.l, x) \/ InEvery(e.r, x)
                    /\ Distributable(e.l, C) /\ Distributable(e.r, C)

Meaningful == stage = "done" /\ ~BroadcastTarget(Asg)
Correct == Meaningful /\ Distributable(rhs, Contracted) =>
             \A c \in TargetCoords(Asg, Dims) : EvalD(Desugared, TargetEnv(Asg, c)) = DenoteAt(Asg, c, Inputs, Dims)

\* NOT an invariant: without the Distributable premise TLC finds the counterexample (x() + y(k)) * (w() + z(k))
CorrectEverywhere == Meaningful =>
             \A c \in TargetCoords(Asg, Dims) : EvalD(Desugared, TargetEnv(Asg, c)) = DenoteAt(Asg, c, Inputs, Dims)

RECURSIVE Img(_)
Img(d) == CASE d.k = "T" -> [k |-> "T", name |-> d.name, idx |-> d.idx]
            [] d.k = "L" -> [k |-> "L", v |-> d.v]
            [] d.k = "C" -> [k |-> "C", over |-> SetToSeq(d.over), e |-> Img(d.e)]
            [] OTHER -> [k |-> d.k, l |-> Img(d.l), r |-> Img(d.r)]

RECURSIVE Text(_)
Text(e) == CASE e.k = "T" -> e.name \o "(" \o (IF Len(e.idx) = 0 THEN "" ELSE IF Len(e.idx) = 1 THEN e.idx[1] ELSE e.idx[1] \o "," \o e.idx[2]) \o ")"
             [] e.k = "L" -> "2"
             [] OTHER -> "(" \o Text(e.l) \o " " \o e.k \o " " \o Text(e.r) \o ")"

Emit == ~Meaningful \/ PrintT("@@" \o ToJson([text |-> "a(" \o (IF Len(tidx) = 0 THEN "" ELSE tidx[1]) \o ") = " \o Text(rhs),
                                                distributable |-> Distributable(rhs, Contracted),
                                                over |-> SetToSeq(Contracted), desugared |-> Img(Desugared)]))
=============================================================================
