----------------------------- MODULE TensorApi -----------------------------
(***************************************************************************)
(* Construction and read-back of tensors (C09).                            *)
(*                                                                         *)
(* A behaviour draws a request for the public constructors - format,       *)
(* dimensions, a list of <<coordinate, value>> entries in arbitrary order, *)
(* possibly with a duplicated coordinate or one coordinate outside the     *)
(* dimensions, and a second format for conversion - and states what the    *)
(* library must answer:                                                    *)
(*   reject   the request must be refused (some coordinate out of range)   *)
(*   content  duplicates summed                                            *)
(*   packed   the canonical stored arrays  Storage!Pack(content)           *)
(*   items    what items() yields, in storage order (explicit zeros kept)  *)
(*   dok      the non-zero entries (to_dok)                                *)
(*   conv     the stored arrays after to_format(fmt2) (= Pack of dok)      *)
(* One JSON line per request; harness/vf/checks/c09.py replays each into   *)
(* the real from_dok / from_aos / from_soa / from_lol, taco_indices,       *)
(* taco_vals, items, to_dok, to_format and pickle and compares.            *)
(***************************************************************************)
EXTENDS Storage, Json, Randomization

CONSTANTS MaxOrder, MaxDim, Orders, AllTargets,
          MaxEntries   \* bound on the number of distinct coordinates of a request (large dimensions are sampled)

VARIABLES stage, n, fmt, dims, data, fmt2
vars == <<stage, n, fmt, dims, data, fmt2>>

AllCoords(ds) == {c \in [1..Len(ds) -> 0..(MaxDim - 1)] : \A d \in 1..Len(ds) : c[d] < ds[d]}


\* the entries a request may carry for a chosen coordinate set S (positional values 1, 2, ...):
\*   kind 0: sorted ascending          kind 1: descending
\*   kind 2: descending + a duplicate of the smallest coordinate (value 2, so the sum differs)
\*   kind 3: ascending with the first value an explicit zero
\*   kind 4: duplicate whose values cancel (1 + -1 = stored explicit zero)
Entries(S, kind) ==
  LET sq == SortSeqs(S)
      base == [i \in 1..Len(sq) |-> <<sq[i], DInt(i)>>]
  IN CASE kind = 0 -> base
       [] kind = 1 -> Reverse(base)
       [] kind = 2 -> IF S = {} THEN base ELSE Append(Reverse(base), <<sq[1], DInt(2)>>)
       [] kind = 3 -> IF S = {} THEN base ELSE [base EXCEPT ![1] = <<sq[1], DZero>>]
       [] kind = 4 -> IF S = {} THEN base ELSE Append(base, <<sq[1], DInt(-1)>>)

\* subsets of at most k elements, built without enumerating the power set
RECURSIVE SmallSets(_, _)
SmallSets(U, k) == IF k = 0 \/ U = {} THEN {{}}
                   ELSE LET prev == SmallSets(U, k - 1) IN prev \cup {T \cup {x} : T \in prev, x \in U}
\* large dimensions (MaxEntries < 99, used with -simulate): one random subset instead of all of them
Pick(U, k) == RandomSubset(IF Cardinality(U) >= k THEN k ELSE 0, U)

\* one coordinate just outside dimension d (or below zero)
Outside(ds, d, low) == [j \in 1..Len(ds) |-> IF j = d THEN (IF low THEN -1 ELSE ds[d]) ELSE 0]

Init == stage = "order" /\ n = 0 /\ fmt = <<>> /\ dims = <<>> /\ data = <<>> /\ fmt2 = <<>>

PickOrder == /\ stage = "order"
             /\ \E k \in Orders : n' = k
             /\ stage' = "format" /\ UNCHANGED <<fmt, dims, data, fmt2>>
PickFormat == /\ stage = "format"
              /\ \E f \in Formats(n) : fmt' = f
              /\ stage' = "dims" /\ UNCHANGED <<n, dims, data, fmt2>>
PickDims == /\ stage = "dims"
            /\ \E ds \in [1..n -> 0..MaxDim] : dims' = ds
            /\ stage' = "data" /\ UNCHANGED <<n, fmt, data, fmt2>>
PickData ==
  /\ stage = "data"
  /\ \/ /\ MaxEntries >= 99
        /\ \E S \in SUBSET AllCoords(dims) : \E kind \in 0..4 : data' = Entries(S, kind)
     \/ /\ MaxEntries < 99
        /\ \E k \in 0..MaxEntries : \E kind \in 0..4 : data' = Entries(Pick(AllCoords(dims), k), kind)
     \/ \E d \in 1..n : \E low \in BOOLEAN : \E where \in 0..3 :
        \E S \in (IF MaxEntries >= 99 THEN SmallSets(AllCoords(dims), 3) ELSE {Pick(AllCoords(dims), 3)}) :
           \* an out-of-range entry among up to three in-range ones, at any position of the list and - because the
           \* other coordinates of the bad entry are taken from an in-range one - in any row of the structure
           LET base == Entries(S, 0)
               like == IF S = {} THEN [j \in 1..n |-> 0] ELSE (CHOOSE c \in S : TRUE)
               bad == [j \in 1..n |-> IF j = d THEN (IF low THEN -1 ELSE dims[d]) ELSE like[j]]
               at == IF where > Len(base) THEN Len(base) ELSE where
           IN data' = SubSeq(base, 1, at) \o << <<bad, DInt(5)>> >> \o SubSeq(base, at + 1, Len(base))
  /\ stage' = "target" /\ UNCHANGED <<n, fmt, dims, fmt2>>

Targets == IF AllTargets THEN Formats(n)
           ELSE {[modes |-> [l \in 1..n |-> "s"], ordering |-> [l \in 1..n |-> n - l]],
                 [modes |-> [l \in 1..n |-> "d"], ordering |-> [l \in 1..n |-> l - 1]],
                 [modes |-> [l \in 1..n |-> IF l % 2 = 1 THEN "d" ELSE "s"], ordering |-> [l \in 1..n |-> (l % n)]]}
PickTarget == /\ stage = "target"
              /\ \E f \in Targets : fmt2' = f
              /\ stage' = "judge" /\ UNCHANGED <<n, fmt, dims, data>>

Next == PickOrder \/ PickFormat \/ PickDims \/ PickData \/ PickTarget
Spec == Init /\ [][Next]_vars

--------------------------------------------------------------------------
(* What the library must answer *)
Reject == \E i \in 1..Len(data) : ~InRangeCoord(data[i][1], dims)

\* the level kinds that store the dimensions in which some entry is out of range
BadDimModes == {fmt.modes[CHOOSE l \in 1..n : fmt.ordering[l] = d - 1] :
                   d \in {d \in 1..n : \E i \in 1..Len(data) : data[i][1][d] < 0 \/ data[i][1][d] >= dims[d]}}

RECURSIVE SumAt(_, _)
SumAt(c, i) == IF i = 0 THEN DZero
               ELSE IF data[i][1] = c THEN DAdd(SumAt(c, i - 1), data[i][2]) ELSE SumAt(c, i - 1)
Content == [c \in {data[i][1] : i \in 1..Len(data)} |-> SumAt(c, Len(data))]
NonZero == [c \in {c \in DOMAIN Content : Content[c] # DZero} |-> Content[c]]

ItemsSeq(ct, f) ==
  LET stored == {ToLevel(c, f) : c \in DOMAIN ct}
      r == PackFrom(stored, f, dims, 1, << <<>> >>)
      st == Pack(ct, f, dims)
  IN [i \in 1..Len(r.final) |-> <<FromLevel(r.final[i], f), st.vals[i]>>]

PairSeq(ct) == LET cs == SortSeqs(DOMAIN ct) IN [i \in 1..Len(cs) |-> <<cs[i], ct[cs[i]]>>]

Line ==
  IF Reject THEN [order |-> n, fmt |-> fmt, dims |-> dims, data |-> data, reject |-> TRUE,
                  badmodes |-> SetToSeq(BadDimModes)]
  ELSE [order |-> n, fmt |-> fmt, dims |-> dims, data |-> data, reject |-> FALSE,
        packed |-> Pack(Content, fmt, dims), items |-> ItemsSeq(Content, fmt), dok |-> PairSeq(NonZero),
        fmt2 |-> fmt2, conv |-> Pack(NonZero, fmt2, dims), convitems |-> ItemsSeq(NonZero, fmt2)]

Emit == stage # "judge" \/ PrintT("@@" \o ToJson(Line))

\* design-level sanity, checked on every request: the answers are consistent with each other
Consistent ==
  stage = "judge" /\ ~Reject =>
    /\ WellFormed(Pack(Content, fmt, dims), fmt, dims)
    /\ \A c \in DOMAIN Content : <<c, Content[c]>> \in Decode(Pack(Content, fmt, dims), fmt, dims)
    /\ {p \in Decode(Pack(NonZero, fmt2, dims), fmt2, dims) : p[2] # DZero}
         = {<<c, NonZero[c]>> : c \in DOMAIN NonZero}
=============================================================================
