------------------------------ MODULE Ownership ------------------------------
(***************************************************************************)
(* Who frees what, when (C13).                                             *)
(*                                                                         *)
(* Objects as in the code: Python names refer to Tensor objects or         *)
(* directly to the cffi struct of a tensor; a Tensor object refers to its  *)
(* struct; global_weakkeydict maps the struct (weakly) to the holder of    *)
(* the ffi.gc wrappers, so the kernel-allocated arrays of a tensor are     *)
(* released when its struct becomes unreachable - and at no other time.    *)
(*                                                                         *)
(* User actions (one evaluation / statement of a driver script each):      *)
(*   Evaluate(n, kind)    n = evaluate(...) with a sparse/dense/scalar/    *)
(*                        empty-sparse output                              *)
(*   EvaluateWith(n, m)   n = evaluate(..., t = <tensor of m>)             *)
(*   Alias(n, m)          n = m                                            *)
(*   StructRef(n, m)      n = m.cffi_tensor        (keeps only the struct) *)
(*   Read(n)              n.to_dok() / Tensor(n).to_dok()                  *)
(*   Iter(n, m)           n = m.items()   (Tensor(m).items() for a struct: *)
(*                        the iterator is created on a TEMPORARY Tensor)   *)
(*   Consume(n)           list(n) for an iterator n: must yield the        *)
(*                        content of the tensor it was created on, however *)
(*                        many names of that tensor were deleted meanwhile *)
(*   Pickle(n, m)         n = pickle.loads(pickle.dumps(m))                *)
(*   Del(n)               del n                                            *)
(*   DropKernels          every compiled kernel object is discarded (cache *)
(*                        eviction / cache_clear / a TensorMethod going    *)
(*                        out of scope): outputs outlive their kernels, so *)
(*                        nothing is freed and nothing changes             *)
(*   Collect              gc.collect()                                     *)
(* Release(t) is the system's step: it frees the arrays of an unreachable  *)
(* struct; user actions wait for it (reference counting is immediate).     *)
(*                                                                         *)
(* TLC checks the invariants on every history up to MaxLen and prints each *)
(* maximal history with the set of tensors whose arrays must have been     *)
(* freed after every action; harness/vf/checks/c13.py replays them in a    *)
(* Python child running under the malloc/free interposer.                  *)
(***************************************************************************)
EXTENDS Integers, Sequences, FiniteSets, TLC, Json, SequencesExt

CONSTANTS Names, MaxLen, MaxTensors

VARIABLES bind,      \* name -> [k : "none" | "tensor" | "struct", t]
          made,      \* sequence of tensors created so far: [kind, kernel]  (kernel = arrays malloc'ed by a kernel)
          freed,     \* set of tensor ids whose kernel arrays have been released
          nfree,     \* tensor id -> how many times its arrays were released
          hist       \* the history: sequence of [act, n, m, kind, freed]
vars == <<bind, made, freed, nfree, hist>>

None == [k |-> "none", t |-> 0]
\* "empty" = a sparse output that stores nothing (the kernel's final realloc(crd, 0) may return NULL)
\* "reordered" = a sparse output produced through TensorMethod(Problem(...)) whose formats do not list the target first
\* "sds" = an order-3 output with a compressed level below a dense one (several guessed-capacity arrays, shrunk at the end)
Kinds == {"sparse", "dense", "scalar", "empty", "reordered", "sds"}

Reachable(t) == \E n \in Names : bind[n].t = t /\ bind[n].k \in {"tensor", "struct", "iter"}
Held(t) == \E n \in Names : bind[n].t = t /\ bind[n].k \in {"tensor", "struct"}
Garbage == {t \in 1..Len(made) : made[t].kernel /\ ~Reachable(t) /\ t \notin freed}
Bound(n) == bind[n].k # "none"

Init == /\ bind = [n \in Names |-> None] /\ made = <<>> /\ freed = {} /\ nfree = <<>> /\ hist = <<>>

Quiet == Garbage = {} /\ Len(hist) < MaxLen

Log(act, n, m, kind) == hist' = Append(hist, [act |-> act, n |-> n, m |-> m, kind |-> kind])

NewTensor(n, kind, kernel) ==
  /\ Len(made) < MaxTensors
  /\ made' = Append(made, [kind |-> kind, kernel |-> kernel])
  /\ nfree' = Append(nfree, 0)
  /\ bind' = [bind EXCEPT ![n] = [k |-> "tensor", t |-> Len(made) + 1]]

Evaluate(n, kind) == /\ Quiet /\ NewTensor(n, kind, TRUE) /\ Log("evaluate", n, n, kind) /\ UNCHANGED freed

\* the output has the kind of the input; the input (still named m) must survive the call
EvaluateWith(n, m) ==
  /\ Quiet /\ bind[m].k = "tensor"
  /\ NewTensor(n, made[bind[m].t].kind, TRUE) /\ Log("evaluate_with", n, m, made[bind[m].t].kind) /\ UNCHANGED freed

Alias(n, m) == /\ Quiet /\ n # m /\ bind[m].k \in {"tensor", "struct"}
               /\ bind' = [bind EXCEPT ![n] = bind[m]]
               /\ Log("alias", n, m, "") /\ UNCHANGED <<made, freed, nfree>>

StructRef(n, m) == /\ Quiet /\ bind[m].k = "tensor"
                   /\ bind' = [bind EXCEPT ![n] = [k |-> "struct", t |-> bind[m].t]]
                   /\ Log("struct_ref", n, m, "") /\ UNCHANGED <<made, freed, nfree>>

Read(n) == /\ Quiet /\ bind[n].k \in {"tensor", "struct"}
           /\ Log("read", n, n, "") /\ UNCHANGED <<bind, made, freed, nfree>>

Iter(n, m) == /\ Quiet /\ n # m /\ bind[m].k \in {"tensor", "struct"}
              /\ bind' = [bind EXCEPT ![n] = [k |-> "iter", t |-> bind[m].t]]
              /\ Log("iter", n, m, "") /\ UNCHANGED <<made, freed, nfree>>

Consume(n) == /\ Quiet /\ bind[n].k = "iter"
              /\ bind' = [bind EXCEPT ![n] = None]
              /\ Log("consume", n, n, "") /\ UNCHANGED <<made, freed, nfree>>

Pickle(n, m) == /\ Quiet /\ bind[m].k = "tensor"
                /\ NewTensor(n, made[bind[m].t].kind, FALSE) /\ Log("pickle", n, m, "") /\ UNCHANGED freed

Del(n) == /\ Quiet /\ Bound(n)
          /\ bind' = [bind EXCEPT ![n] = None]
          /\ Log("del", n, n, "") /\ UNCHANGED <<made, freed, nfree>>

DropKernels == /\ Quiet /\ Log("drop_kernels", CHOOSE n \in Names : TRUE, CHOOSE n \in Names : TRUE, "")
               /\ UNCHANGED <<bind, made, freed, nfree>>

Collect == /\ Quiet /\ Log("collect", CHOOSE n \in Names : TRUE, CHOOSE n \in Names : TRUE, "")
           /\ UNCHANGED <<bind, made, freed, nfree>>

Release(t) == /\ t \in Garbage
              /\ freed' = freed \cup {t}
              /\ nfree' = [nfree EXCEPT ![t] = @ + 1]
              /\ UNCHANGED <<bind, made, hist>>

User == \/ \E n \in Names : \E kd \in Kinds : Evaluate(n, kd)
        \/ \E n, m \in Names : EvaluateWith(n, m) \/ Alias(n, m) \/ StructRef(n, m) \/ Pickle(n, m) \/ Iter(n, m)
        \/ \E n \in Names : Read(n) \/ Del(n) \/ Consume(n)
        \/ Collect \/ DropKernels
Next == User \/ \E t \in 1..Len(made) : Release(t)
Spec == Init /\ [][Next]_vars

--------------------------------------------------------------------------
NoUseAfterFree == \A t \in 1..Len(made) : Reachable(t) => t \notin freed
FreedAtMostOnce == \A t \in 1..Len(made) : nfree[t] <= 1
NoLeak == Garbage = {} => freed = {t \in 1..Len(made) : made[t].kernel /\ ~Reachable(t)}
OnlyKernelArraysFreed == \A t \in freed : made[t].kernel

\* expected freed set after each prefix: recomputed from the history alone (a second, declarative reading)
RECURSIVE BindAfter(_, _)
BindAfter(h, k) ==   \* binding after the first k actions; tensor ids are assigned in order of creation
  IF k = 0 THEN [b |-> [n \in Names |-> None], c |-> 0]
  ELSE LET p == BindAfter(h, k - 1) a == h[k] IN
       CASE a.act \in {"evaluate", "evaluate_with", "pickle"} ->
              [b |-> [p.b EXCEPT ![a.n] = [k |-> "tensor", t |-> p.c + 1]], c |-> p.c + 1]
         [] a.act = "alias" -> [b |-> [p.b EXCEPT ![a.n] = p.b[a.m]], c |-> p.c]
         [] a.act = "struct_ref" -> [b |-> [p.b EXCEPT ![a.n] = [k |-> "struct", t |-> p.b[a.m].t]], c |-> p.c]
         [] a.act = "iter" -> [b |-> [p.b EXCEPT ![a.n] = [k |-> "iter", t |-> p.b[a.m].t]], c |-> p.c]
         [] a.act \in {"del", "consume"} -> [b |-> [p.b EXCEPT ![a.n] = None], c |-> p.c]
         [] OTHER -> p
FreedAfter(h, k) == LET p == BindAfter(h, k) IN
                    {t \in 1..p.c : made[t].kernel /\ ~\E n \in Names : p.b[n].t = t /\ p.b[n].k # "none"}
\* tensors referenced only by iterators in flight: the arrays may or may not have been released
MaybeFreedAfter(h, k) == LET p == BindAfter(h, k) IN
                         {t \in 1..p.c : /\ made[t].kernel
                                         /\ \E n \in Names : p.b[n].t = t /\ p.b[n].k = "iter"
                                         /\ ~\E n \in Names : p.b[n].t = t /\ p.b[n].k \in {"tensor", "struct"}}
Declarative == Garbage = {} => freed = FreedAfter(hist, Len(hist))

Done == Garbage = {} /\ Len(hist) = MaxLen
Line == [hist |-> [k \in 1..Len(hist) |-> [act |-> hist[k].act, n |-> hist[k].n, m |-> hist[k].m, kind |-> hist[k].kind,
                                            freed |-> SetToSeq(FreedAfter(hist, k)), maybe |-> SetToSeq(MaybeFreedAfter(hist, k))]],
         kernel |-> [t \in 1..Len(made) |-> made[t].kernel]]
Emit == ~Done \/ PrintT("@@" \o ToJson(Line))
=============================================================================
