-------------------------- MODULE CacheDeterminism --------------------------
(***************************************************************************)
(* Generated code is a pure function of the request; caching is invisible  *)
(* (C15).  A TRACE specification: the events recorded from real processes  *)
(* (IOEnv.VF_TRACE, a JSON array) must be a behaviour of this machine.     *)
(*                                                                         *)
(* State                                                                   *)
(*   code     request -> digest of the generated text, bound at first      *)
(*            sight (an unlogged variable TLC infers) and never changed:   *)
(*            the same in every process, at every position, for every      *)
(*            hash seed, through library, CLI stdout and CLI -o            *)
(*   cache    per process: the LRU order of problem keys (most recent      *)
(*            last) and the kernel identity each key maps to               *)
(*   result   (request, input) -> digest of the raw result arrays          *)
(* Events                                                                  *)
(*   Generated(proc, req, sha) | Cli(proc, req, stdout, file)              *)
(*   Lookup(proc, key, kernel, hit) | CacheClear(proc)                     *)
(*   Result(proc, req, input, sha)                                         *)
(* A problem KEY is <<assignment, <<name, format>> in order, backend>> as  *)
(* issued by the driver (not as computed by tensora).                      *)
(***************************************************************************)
EXTENDS Integers, Sequences, FiniteSets, TLC, Json, IOUtils

Trace == JsonDeserialize(IOEnv.VF_TRACE)
\* capacity of the kernel cache: cache_info().maxsize as reported by the real process (first event of the trace)
MaxSize == Trace[1].maxsize

VARIABLES l, code, cache, result
vars == <<l, code, cache, result>>

E == Trace[l]
IsEvent(e) == l <= Len(Trace) /\ Trace[l].ev = e /\ l' = l + 1

Init == l = 2 /\ code = <<>> /\ cache = <<>> /\ result = <<>>

Bind(f, k, v) == IF k \in DOMAIN f THEN f[k] = v ELSE TRUE
Put(f, k, v) == IF k \in DOMAIN f THEN f ELSE (k :> v) @@ f

Generated ==
  /\ IsEvent("Generated")
  /\ Bind(code, E.req, E.sha)
  /\ code' = Put(code, E.req, E.sha)
  /\ UNCHANGED <<cache, result>>

Cli ==
  /\ IsEvent("Cli")
  /\ Bind(code, E.req, E.stdout) /\ E.file = E.stdout
  /\ code' = Put(code, E.req, E.stdout)
  /\ UNCHANGED <<cache, result>>

ProcCache(pr) == IF pr \in DOMAIN cache THEN cache[pr] ELSE [order |-> <<>>, kernel |-> <<>>]
Remove(sq, x) == SelectSeq(sq, LAMBDA y : y # x)

Lookup ==
  /\ IsEvent("Lookup")
  /\ LET c == ProcCache(E.proc)
         present == E.key \in DOMAIN c.kernel IN
     /\ E.hit = present                                              \* hits and misses exactly as an LRU of MaxSize predicts
     /\ present => c.kernel[E.key] = E.kernel                        \* a hit returns the kernel compiled for this key
     /\ ~present => \A k \in DOMAIN c.kernel : c.kernel[k] # E.kernel  \* a fresh kernel is not shared with another problem
     /\ LET order1 == Append(Remove(c.order, E.key), E.key)
            evict == Len(order1) > MaxSize
            order2 == IF evict THEN Tail(order1) ELSE order1
            kern1 == (E.key :> E.kernel) @@ c.kernel
            kern2 == IF evict THEN [k \in DOMAIN kern1 \ {Head(order1)} |-> kern1[k]] ELSE kern1
        IN cache' = (E.proc :> [order |-> order2, kernel |-> kern2]) @@ cache
  /\ UNCHANGED <<code, result>>

CacheClear ==
  /\ IsEvent("CacheClear")
  /\ cache' = (E.proc :> [order |-> <<>>, kernel |-> <<>>]) @@ cache
  /\ UNCHANGED <<code, result>>

Result ==
  /\ IsEvent("Result")
  /\ Bind(result, <<E.req, E.input>>, E.sha)
  /\ result' = Put(result, <<E.req, E.input>>, E.sha)
  /\ UNCHANGED <<code, cache>>

Next == Generated \/ Cli \/ Lookup \/ CacheClear \/ Result
Spec == Init /\ [][Next]_vars

\* Acceptance (POSTCONDITION, -workers 1, deadlock checking off): the machine is deterministic, so the diameter of
\* the explored graph is the number of consumed events + 1 (event 1 is the Meta record, consumed by Init).  A rejection names the first event that does not fit.
TraceAccepted ==
  LET d == TLCGet("stats").diameter IN
  IF d = Len(Trace) THEN PrintT("@@" \o ToJson([accepted |-> TRUE, events |-> Len(Trace)]))
  ELSE PrintT("@@" \o ToJson([accepted |-> FALSE, stuck_at |-> d + 1, event |-> Trace[d + 1]])) /\ FALSE
=============================================================================
