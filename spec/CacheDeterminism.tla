-------------------------- MODULE CacheDeterminism --------------------------
(***************************************************************************)
(* Generated code is a pure function of the request; caching is invisible  *)
(* (C15).  A TRACE specification: the events recorded from real processes  *)
(* (IOEnv.VF_TRACE, a JSON array) must be a behaviour of this machine.     *)
(*                                                                         *)
(* State                                                                   *)
(*   code     request -> digest of the generated text, bound at first      *)
(*            sight (an unlogged variable TLC infers) and never changed:   *)
(*            the same in every process, at every position, for every      *)
(*            hash seed, through library, CLI stdout and CLI -o            *)
(*   kkey     (process, kernel identity) -> the problem key it was first   *)
(*            handed out for, never changed: two requests share a cached   *)
(*            kernel only if they are the same problem.  WHICH entries a   *)
(*            cache keeps (LRU of some size, unbounded, none) is not part  *)
(*            of the property and is not modelled: a lookup may hit or     *)
(*            miss; a hit must return a kernel handed out before           *)
(*   result   (request, input) -> digest of the raw result arrays          *)
(* Events                                                                  *)
(*   Generated(proc, req, sha) | Cli(proc, req, stdout, file)              *)
(*   Lookup(proc, key, kernel, hit) | CacheClear(proc)                     *)
(*   Result(proc, req, input, sha)                                         *)
(* A problem KEY is <<assignment without blanks, sorted <<name, format>>,   *)
(* backend>> as issued by the driver (not as computed by tensora); a       *)
(* kernel identity is a serial number the driver attaches to the object    *)
(* at first sight (never reused, unlike id()).                             *)
(***************************************************************************)
EXTENDS Integers, Sequences, FiniteSets, TLC, Json, IOUtils

Trace == JsonDeserialize(IOEnv.VF_TRACE)

VARIABLES l, code, kkey, result
vars == <<l, code, kkey, result>>

E == Trace[l]
IsEvent(e) == l <= Len(Trace) /\ Trace[l].ev = e /\ l' = l + 1

Init == l = 2 /\ code = <<>> /\ kkey = <<>> /\ result = <<>>

Bind(f, k, v) == IF k \in DOMAIN f THEN f[k] = v ELSE TRUE
Put(f, k, v) == IF k \in DOMAIN f THEN f ELSE (k :> v) @@ f

Generated ==
  /\ IsEvent("Generated")
  /\ Bind(code, E.req, E.sha)
  /\ code' = Put(code, E.req, E.sha)
  /\ UNCHANGED <<kkey, result>>

Cli ==
  /\ IsEvent("Cli")
  /\ Bind(code, E.req, E.stdout) /\ E.file = E.stdout
  /\ code' = Put(code, E.req, E.stdout)
  /\ UNCHANGED <<kkey, result>>

Lookup ==
  /\ IsEvent("Lookup")
  /\ LET kid == <<E.proc, E.kernel>> IN
     /\ Bind(kkey, kid, E.key)                    \* a kernel is never shared between two problems
     /\ (E.hit => kid \in DOMAIN kkey)            \* a hit returns a kernel that was handed out before
     /\ kkey' = Put(kkey, kid, E.key)
  /\ UNCHANGED <<code, result>>

CacheClear ==
  /\ IsEvent("CacheClear")
  /\ UNCHANGED <<code, kkey, result>>

Result ==
  /\ IsEvent("Result")
  /\ Bind(result, <<E.req, E.input>>, E.sha)
  /\ result' = Put(result, <<E.req, E.input>>, E.sha)
  /\ UNCHANGED <<code, kkey>>

Next == Generated \/ Cli \/ Lookup \/ CacheClear \/ Result
Spec == Init /\ [][Next]_vars

\* Acceptance (POSTCONDITION, -workers 1, deadlock checking off): the machine is deterministic, so the diameter of
\* the explored graph is the number of consumed events + 1 (event 1 is the Meta record, consumed by Init).  A rejection names the first event that does not fit.
TraceAccepted ==
  LET d == TLCGet("stats").diameter IN
  IF d = Len(Trace) THEN PrintT("@@" \o ToJson([accepted |-> TRUE, events |-> Len(Trace)]))
  ELSE PrintT("@@" \o ToJson([accepted |-> FALSE, stuck_at |-> d + 1, event |-> Trace[d + 1]])) /\ FALSE
=============================================================================
