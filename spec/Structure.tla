------------------------------ MODULE Structure ------------------------------
(***************************************************************************)
(* Small structural functions of the compiler, specified on their own and  *)
(* bound to the code by exhaustive enumeration-and-comparison              *)
(* (harness/vf/structure_conf.py).  Root selects the function:             *)
(*                                                                         *)
(* "orders"   legal_iteration_orders(format): a compressed level is        *)
(*            iterated in place; each maximal run of adjacent dense levels *)
(*            may be iterated in any order.  OutputOrders adds what an     *)
(*            append-only OUTPUT additionally needs: every level up to the *)
(*            last compressed one in level order (so only the trailing     *)
(*            dense run may be permuted).                                  *)
(* "sparse"   Context.is_sparse of an expression at an index               *)
(*            (identifiable_expression/_extract_context.py): a literal is  *)
(*            sparse iff it is zero; a tensor is sparse iff it has the     *)
(*            index in a compressed level; a sum is sparse iff both sides  *)
(*            are; a product iff either side is.  This is what lets a loop *)
(*            skip coordinates (C16).                                      *)
(* "subgraphs" generate_subgraphs (iteration_graph/_generate_ir.py): the    *)
(*            lattice of sub-graphs obtained by exhausting compressed      *)
(*            operands one at a time (a product dies with any factor, a    *)
(*            sum loses the term), keyed by the set of operands still      *)
(*            alive.  Keys == the closure; the ORDER requirement (a        *)
(*            sub-graph is emitted after every sub-graph it can be derived *)
(*            from) is what defect #2 violated.                            *)
(* "default"  default_format_given_nnz(dimensions, nnz): dense levels as   *)
(*            long as nnz reaches the product of the dimensions so far,    *)
(*            compressed afterwards.                                       *)
(***************************************************************************)
EXTENDS Storage, Json

CONSTANTS Root, MaxOrder, MaxDim, MaxNnz, MaxLeaves

VARIABLES stage, item
vars == <<stage, item>>

--------------------------------------------------------------------------
(* orders *)
\* maximal runs of adjacent dense levels; every compressed level is a run of its own (0-based level numbers)
RECURSIVE Runs(_, _)
Runs(modes, l) ==
  IF l > Len(modes) THEN <<>>
  ELSE IF modes[l] = "s" THEN << <<l - 1>> >> \o Runs(modes, l + 1)
  ELSE LET RECURSIVE upto(_)
           upto(j) == IF j <= Len(modes) /\ modes[j] = "d" THEN upto(j + 1) ELSE j
           e == upto(l)
       IN << [i \in 1..(e - l) |-> l - 1 + i - 1] >> \o Runs(modes, e)

SeqPerms(sq) == {[i \in 1..Len(sq) |-> sq[p[i] + 1]] : p \in Perms(0..(Len(sq) - 1))}
RECURSIVE Concats(_)
Concats(runs) == IF runs = <<>> THEN {<<>>} ELSE {a \o b : a \in SeqPerms(Head(runs)), b \in Concats(Tail(runs))}
LegalOrders(modes) == Concats(Runs(modes, 1))

LastCompressed(modes) == IF \E l \in 1..Len(modes) : modes[l] = "s"
                         THEN CHOOSE l \in 1..Len(modes) : modes[l] = "s" /\ \A j \in (l + 1)..Len(modes) : modes[j] = "d"
                         ELSE 0
OutputOrders(modes) == {o \in LegalOrders(modes) : \A l \in 1..LastCompressed(modes) : o[l] = l - 1}

--------------------------------------------------------------------------
(* is_sparse: expressions over tensors with a mode for the index (or not having it) and literals *)
LeafKinds == {"dense", "compressed", "absent", "zero", "zerof", "lit"}
HoleX == [k |-> "H", kind |-> ""]
LeafX(kind) == [k |-> "leaf", kind |-> kind]
RECURSIVE HolesX(_), CountX(_), FillX(_, _), Sparse(_)
HolesX(e) == CASE e.k = "H" -> 1 [] e.k = "leaf" -> 0 [] OTHER -> HolesX(e.l) + HolesX(e.r)
CountX(e) == CASE e.k \in {"H", "leaf"} -> 1 [] OTHER -> CountX(e.l) + CountX(e.r)
FillX(e, s) == CASE e.k = "H" -> s [] e.k = "leaf" -> e
                 [] OTHER -> IF HolesX(e.l) > 0 THEN [e EXCEPT !.l = FillX(e.l, s)] ELSE [e EXCEPT !.r = FillX(e.r, s)]
Sparse(e) == CASE e.k = "leaf" -> e.kind \in {"compressed", "zero", "zerof"}
               [] e.k = "+" -> Sparse(e.l) /\ Sparse(e.r)
               [] e.k = "*" -> Sparse(e.l) \/ Sparse(e.r)

--------------------------------------------------------------------------
(* sub-graph lattice: compressed leaves are numbered left to right; ZERO is an exhausted sub-expression *)
ZERO == [k |-> "zero", kind |-> ""]
RECURSIVE Number(_, _)
Number(e, next) ==   \* returns [e, next]
  IF e.k = "leaf" THEN [e |-> [k |-> "leaf", kind |-> e.kind, id |-> IF e.kind = "compressed" THEN next ELSE 0],
                        next |-> IF e.kind = "compressed" THEN next + 1 ELSE next]
  ELSE LET a == Number(e.l, next) b == Number(e.r, a.next) IN [e |-> [k |-> e.k, kind |-> "", l |-> a.e, r |-> b.e], next |-> b.next]
IsZeroX(z) == z = ZERO \/ (z.k = "leaf" /\ z.kind = "zero")
RECURSIVE Ex(_, _), Alive(_)
Ex(e, x) ==
  CASE e.k = "zero" -> e
    [] e.k = "leaf" -> IF e.kind = "compressed" /\ e.id = x THEN ZERO ELSE e
    [] OTHER -> LET l == Ex(e.l, x) r == Ex(e.r, x) IN
                IF l = e.l /\ r = e.r THEN e
                ELSE IF e.k = "+" THEN (IF IsZeroX(l) THEN r ELSE IF IsZeroX(r) THEN l ELSE [e EXCEPT !.l = l, !.r = r])
                ELSE (IF IsZeroX(l) \/ IsZeroX(r) THEN ZERO ELSE [e EXCEPT !.l = l, !.r = r])
Alive(e) == CASE e.k = "zero" -> {}
              [] e.k = "leaf" -> IF e.kind = "compressed" THEN {e.id} ELSE {}
              [] OTHER -> Alive(e.l) \cup Alive(e.r)
StepX(frontier) == UNION {{Ex(h, x) : x \in Alive(h)} : h \in frontier}
RECURSIVE CloseX(_, _)
CloseX(frontier, seen) ==    \* frontier, seen: sets of expressions
  LET nxt == StepX(frontier) \ seen IN IF nxt = {} THEN seen ELSE CloseX(nxt, seen \cup nxt)
SubgraphKeys(e) == {Alive(g) : g \in CloseX({e}, {e})}

--------------------------------------------------------------------------
(* default format *)
RECURSIVE NeededDense(_, _, _, _)
NeededDense(dims, nnz, l, threshold) ==   \* number of leading dense levels
  IF l > Len(dims) THEN Len(dims) - 1
  ELSE IF nnz < threshold * dims[l] THEN l - 1 ELSE NeededDense(dims, nnz, l + 1, threshold * dims[l])
DefaultModes(dims, nnz) ==
  IF Len(dims) = 0 THEN <<>>
  ELSE LET nd == NeededDense(dims, nnz, 1, 1) IN [l \in 1..Len(dims) |-> IF l <= nd THEN "d" ELSE "s"]

--------------------------------------------------------------------------
Init == stage = "pick" /\ item = HoleX

Pick ==
  /\ stage = "pick"
  /\ CASE Root = "orders" -> \E n \in 0..MaxOrder : \E m \in [1..n -> {"d", "s"}] : item' = [k |-> "modes", modes |-> m] /\ stage' = "done"
       [] Root = "default" -> \E n \in 0..MaxOrder : \E ds \in [1..n -> 0..MaxDim] : \E z \in 0..MaxNnz :
                                 item' = [k |-> "dims", dims |-> ds, nnz |-> z] /\ stage' = "done"
       [] Root \in {"sparse", "subgraphs"} ->
            IF HolesX(item) = 0 THEN item' = item /\ stage' = "done"
            ELSE /\ stage' = stage
                 /\ \/ \E kd \in LeafKinds : item' = FillX(item, LeafX(kd))
                    \/ CountX(item) < MaxLeaves /\ \E o \in {"+", "*"} : item' = FillX(item, [k |-> o, kind |-> "", l |-> HoleX, r |-> HoleX])
Next == Pick
Spec == Init /\ [][Next]_vars

RECURSIVE ImgX(_)
ImgX(e) == IF e.k = "leaf" THEN [k |-> "leaf", kind |-> e.kind] ELSE [k |-> e.k, l |-> ImgX(e.l), r |-> ImgX(e.r)]

RECURSIVE ImgN(_)
ImgN(e) == IF e.k = "leaf" THEN [k |-> "leaf", kind |-> e.kind, id |-> e.id] ELSE [k |-> e.k, l |-> ImgN(e.l), r |-> ImgN(e.r)]

Line == CASE Root = "orders" -> [root |-> Root, modes |-> item.modes, legal |-> SetToSeq(LegalOrders(item.modes)),
                                 output |-> SetToSeq(OutputOrders(item.modes))]
          [] Root = "default" -> [root |-> Root, dims |-> item.dims, nnz |-> item.nnz, modes |-> DefaultModes(item.dims, item.nnz)]
          [] Root = "sparse" -> [root |-> Root, expr |-> ImgX(item), sparse |-> Sparse(item)]
          [] Root = "subgraphs" -> LET ne == Number(item, 1).e IN
                                   [root |-> Root, expr |-> ImgN(ne), keys |-> SetToSeq({SetToSeq(K) : K \in SubgraphKeys(ne)})]
Emit == stage # "done" \/ PrintT("@@" \o ToJson(Line))
=============================================================================
