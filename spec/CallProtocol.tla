---------------------------- MODULE CallProtocol ----------------------------
(***************************************************************************)
(* Argument validation before a kernel is entered (C10).                   *)
(*                                                                         *)
(* Problems (IOEnv.VF_PROBLEMS, extracted by the harness from the real     *)
(* parser: parameter names in signature order, their formats, the index    *)
(* lists of every use, a size for every index) x entry point               *)
(* ("method" = tensor_method(...)(...), "evaluate" = evaluate(...)) x      *)
(* exactly one fault (or none) give a CALL.  The call protocol is written  *)
(* step by step like TensorMethod.__call__ / evaluate:                     *)
(*   Bind -> ReadFormats/MakeProblem (evaluate only) -> CheckArg(1..n)     *)
(*        -> CheckIndex(x)... -> Enter | Raise(class)                      *)
(* and TLC checks the design against the declarative predicate:            *)
(*   EnteredOnlyConsistent == pc = "entered" => Consistent                 *)
(*   RefusedOnlyInconsistent == pc = "raised" => ~Consistent               *)
(* The property quantifies over calls whatever was called before: a call   *)
(* may be PRIMED, i.e. preceded by a consistent call of the same entry     *)
(* point on the same problem with arguments of equal content (phase 1, no  *)
(* fault, must enter); the protocol has no memory, so the verdict of the   *)
(* second call (phase 2) is the same - the replay makes the real code show *)
(* that too.                                                               *)
(* Every call is printed with the verdict the property demands             *)
(* (must_enter / must_refuse) and replayed into the real entry points with *)
(* the compiled function pointer wrapped by a recorder.                    *)
(***************************************************************************)
EXTENDS Integers, Sequences, FiniteSets, TLC, Json, IOUtils

Problems == JsonDeserialize(IOEnv.VF_PROBLEMS)

CONSTANT Entries

VARIABLES p, entry, fault, pc, k, outcome, primed, phase
IsEvaluate == entry \in {"evaluate", "evaluate_cffi"}
IsMethod == entry \in {"method", "method_cffi"}
vars == <<p, entry, fault, pc, k, outcome, primed, phase>>

Pb == Problems[p]
Params == Pb.params                      \* sequence of [name, modes, ordering, uses]; uses = seq of index lists
NP == Len(Params)
ParamNames == {Params[i].name : i \in 1..NP}
Sizes == Pb.sizes                        \* index -> size
Indexes == Pb.indexes                    \* sequence of index names that occur on the right-hand side

NoFault == [kind |-> "none", name |-> "", a |-> 0, b |-> 0]
Faults ==
  {NoFault, [kind |-> "extra", name |-> "zz9", a |-> 0, b |-> 0], [kind |-> "positional", name |-> "", a |-> 0, b |-> 0],
   \* an extra argument that carries the name of the TARGET tensor (not a parameter: the output is allocated by the call)
   [kind |-> "extra", name |-> Pb.target, a |-> 1, b |-> 0]}
  \cup {[kind |-> "missing", name |-> Params[i].name, a |-> 0, b |-> 0] : i \in 1..NP}
  \cup {[kind |-> "nontensor", name |-> Params[i].name, a |-> 0, b |-> 0] : i \in 1..NP}
  \cup UNION {{[kind |-> "order", name |-> Params[i].name, a |-> d, b |-> 0] :
                  d \in {x \in {-1, 1} : Len(Params[i].modes) + x >= 0}} : i \in 1..NP}
  \cup UNION {{[kind |-> "mode", name |-> Params[i].name, a |-> l, b |-> 0] : l \in 1..Len(Params[i].modes)} : i \in 1..NP}
  \cup {[kind |-> "ordering", name |-> Params[i].name, a |-> 0, b |-> 0] : i \in {j \in 1..NP : Len(Params[j].modes) >= 2}}
  \cup UNION {{[kind |-> "dim", name |-> Params[i].name, a |-> d, b |-> x] :
                  d \in 1..Len(Params[i].modes), x \in {-1, 1}} : i \in 1..NP}
  \* one dimension of one argument is EMPTY (size 0): inconsistent exactly when another participant shares the index
  \cup UNION {{[kind |-> "dimzero", name |-> Params[i].name, a |-> d, b |-> 0] :
                  d \in 1..Len(Params[i].modes)} : i \in 1..NP}

--------------------------------------------------------------------------
(* The call a fault produces: name -> argument descriptor *)
BaseDims(i) == [d \in 1..Len(Params[i].modes) |-> Sizes[Params[i].uses[1][d]]]
Flip(m) == IF m = "d" THEN "s" ELSE "d"
Swap12(s) == [l \in 1..Len(s) |-> IF l = 1 THEN s[2] ELSE IF l = 2 THEN s[1] ELSE s[l]]

Arg(i) ==
  LET P == Params[i] n == Len(P.modes) f == fault IN
  IF f.name # P.name THEN [tensor |-> TRUE, modes |-> P.modes, ordering |-> P.ordering, dims |-> BaseDims(i)]
  ELSE CASE f.kind = "nontensor" -> [tensor |-> FALSE, modes |-> <<>>, ordering |-> <<>>, dims |-> <<>>]
         [] f.kind = "order" ->
              IF f.a = 1 THEN [tensor |-> TRUE, modes |-> Append(P.modes, "d"), ordering |-> Append(P.ordering, n),
                               dims |-> Append(BaseDims(i), 2)]
              ELSE [tensor |-> TRUE, modes |-> [l \in 1..(n - 1) |-> "d"], ordering |-> [l \in 1..(n - 1) |-> l - 1],
                    dims |-> SubSeq(BaseDims(i), 1, n - 1)]
         [] f.kind = "mode" -> [tensor |-> TRUE, modes |-> [P.modes EXCEPT ![f.a] = Flip(@)], ordering |-> P.ordering,
                                dims |-> BaseDims(i)]
         [] f.kind = "ordering" -> [tensor |-> TRUE, modes |-> P.modes, ordering |-> Swap12(P.ordering), dims |-> BaseDims(i)]
         [] f.kind = "dim" -> [tensor |-> TRUE, modes |-> P.modes, ordering |-> P.ordering,
                               dims |-> [BaseDims(i) EXCEPT ![f.a] = @ + f.b]]
         [] f.kind = "dimzero" -> [tensor |-> TRUE, modes |-> P.modes, ordering |-> P.ordering,
                                   dims |-> [BaseDims(i) EXCEPT ![f.a] = 0]]
         [] OTHER -> [tensor |-> TRUE, modes |-> P.modes, ordering |-> P.ordering, dims |-> BaseDims(i)]

Supplied == (ParamNames \ (IF fault.kind = "missing" THEN {fault.name} ELSE {}))
            \cup (IF fault.kind = "extra" THEN {fault.name} ELSE {})
Positional == fault.kind = "positional"
ParamIx(nm) == CHOOSE i \in 1..NP : Params[i].name = nm

--------------------------------------------------------------------------
(* What "consistent" means, declaratively.  For `method' the kernel was    *)
(* generated for the declared formats; `evaluate' generates for whatever   *)
(* formats the arguments have, so only names, tensor-ness, orders and      *)
(* shared dimensions can be inconsistent there.                            *)
SizeOf(i, d) == Arg(i).dims[d]
Participants(x) == {<<i, u, d>> \in (1..NP) \X (1..8) \X (1..8) :
                       u <= Len(Params[i].uses) /\ d <= Len(Params[i].uses[u]) /\ Params[i].uses[u][d] = x}
DimsAgree == \A j \in 1..Len(Indexes) :
               \A s, t \in Participants(Indexes[j]) : SizeOf(s[1], s[3]) = SizeOf(t[1], t[3])
NonNegative == \A i \in 1..NP : \A d \in 1..Len(Arg(i).dims) : Arg(i).dims[d] >= 0

Consistent ==
  /\ ~Positional /\ Supplied = ParamNames
  /\ \A i \in 1..NP : Arg(i).tensor /\ Len(Arg(i).modes) = Len(Params[i].modes)
  /\ (IsMethod => \A i \in 1..NP : Arg(i).modes = Params[i].modes /\ Arg(i).ordering = Params[i].ordering)
  /\ DimsAgree

--------------------------------------------------------------------------
(* The protocol, one step per check of the implementation *)
\* "method_cffi" / "evaluate_cffi" are the same protocols on the cffi back end (separate functions in the code)
Init == /\ p \in 1..Len(Problems) /\ entry \in Entries
        /\ fault = NoFault /\ pc = "choose" /\ k = 0 /\ outcome = ""
        /\ primed \in BOOLEAN /\ phase = IF primed THEN 1 ELSE 2

Choose == /\ pc = "choose"
          /\ IF phase = 1 THEN fault' = NoFault ELSE \E f \in Faults : fault' = f
          /\ pc' = "bind" /\ UNCHANGED <<p, entry, k, outcome, primed, phase>>

\* the priming call has returned: the call under test follows
Again == /\ pc = "entered" /\ phase = 1
         /\ phase' = 2 /\ pc' = "choose" /\ outcome' = "" /\ k' = 0
         /\ UNCHANGED <<p, entry, fault, primed>>

Raise(cls) == pc' = "raised" /\ outcome' = cls /\ UNCHANGED <<p, entry, fault, k, primed, phase>>
Goto(l, i) == pc' = l /\ k' = i /\ UNCHANGED <<p, entry, fault, outcome, primed, phase>>

Bind == /\ pc = "bind"
        /\ IF Positional THEN Raise("TypeError")
           ELSE IF IsMethod /\ Supplied # ParamNames THEN Raise("TypeError")
           ELSE IF IsEvaluate THEN Goto("formats", 1) ELSE Goto("arg", 1)

\* evaluate: reads argument.format of every supplied argument, then make_problem
ReadFormats ==
  /\ pc = "formats"
  /\ IF \E nm \in Supplied \cap ParamNames : ~Arg(ParamIx(nm)).tensor THEN Raise("TypeError")
     ELSE IF \E nm \in Supplied : nm \notin ParamNames THEN Raise("UnusedFormatError")
     ELSE IF \E nm \in ParamNames : nm \notin Supplied THEN Raise("UndefinedReferenceError")
     ELSE IF \E i \in 1..NP : Len(Arg(i).modes) # Len(Params[i].modes) THEN Raise("IncorrectDimensionsError")
     ELSE Goto("index", 1)

CheckArg ==
  /\ pc = "arg"
  /\ IF k > NP THEN Goto("index", 1)
     ELSE LET A == Arg(k) P == Params[k] IN
          IF ~A.tensor THEN Raise("TypeError")
          ELSE IF Len(A.modes) # Len(P.modes) THEN Raise("ValueError")
          ELSE IF A.modes # P.modes THEN Raise("ValueError")
          ELSE IF A.ordering # P.ordering THEN Raise("ValueError")
          ELSE Goto("arg", k + 1)

CheckIndex ==
  /\ pc = "index"
  /\ IF k > Len(Indexes) THEN Goto("enter", 0)
     ELSE IF \E s, t \in Participants(Indexes[k]) : SizeOf(s[1], s[3]) # SizeOf(t[1], t[3]) THEN Raise("ValueError")
     ELSE Goto("index", k + 1)

Enter == /\ pc = "enter"
         /\ pc' = "entered" /\ outcome' = "Entered" /\ UNCHANGED <<p, entry, fault, k, primed, phase>>

Next == Choose \/ Bind \/ ReadFormats \/ CheckArg \/ CheckIndex \/ Enter \/ Again
Spec == Init /\ [][Next]_vars

EnteredOnlyConsistent == pc = "entered" => Consistent
RefusedOnlyInconsistent == pc = "raised" => ~Consistent

Line == [problem |-> Pb.id, entry |-> entry, fault |-> fault,
         args |-> [nm \in Supplied |-> IF nm \in ParamNames THEN Arg(ParamIx(nm))
                                       ELSE [tensor |-> TRUE, modes |-> <<"d">>, ordering |-> <<0>>, dims |-> <<2>>]],
         base |-> [nm \in ParamNames |-> LET P == Params[ParamIx(nm)] IN
                     [tensor |-> TRUE, modes |-> P.modes, ordering |-> P.ordering, dims |-> BaseDims(ParamIx(nm))]],
         positional |-> Positional, consistent |-> Consistent, nonnegative |-> NonNegative,
         model_outcome |-> outcome, primed |-> primed]
PhaseOneEnters == phase = 1 => pc # "raised"
Emit == pc \notin {"entered", "raised"} \/ phase = 1 \/ PrintT("@@" \o ToJson(Line))
=============================================================================
