------------------------------ MODULE Grammar ------------------------------
(***************************************************************************)
(* Assignment and format text (C12).                                       *)
(*                                                                         *)
(* Root = "assignment": a derivation machine (holes filled leftmost-first)  *)
(*   whose complete states are assignment syntax trees up to ExprDepth,    *)
(*   over overlapping pools of tensor and index names (so that mutating,   *)
(*   order-inconsistent and name-conflicting assignments arise), every     *)
(*   literal spelling class, and redundant-parenthesis nodes.  For each    *)
(*   tree the specification states its TEXT - printed with the             *)
(*   conventional rules: * binds tighter than + and -, equal precedence    *)
(*   associates to the left, so a right operand of equal precedence and    *)
(*   any operand of lower precedence is parenthesised - the tree SHAPE the *)
(*   parser must recover (redundant parentheses vanish), and whether the   *)
(*   assignment must be REJECTED.                                          *)
(* Root = "format": every mode string up to MaxOrder with no ordering or   *)
(*   any digit string as ordering; valid iff the digits are a permutation. *)
(* Root = "string": every string up to MaxLen over a 12-symbol alphabet    *)
(*   (parsing must return a tree or a typed failure, never raise).         *)
(***************************************************************************)
EXTENDS Integers, Sequences, FiniteSets, TLC, Json

CONSTANTS Root, ExprDepth, MaxOrder, MaxLen, Spaced

VARIABLES tree
vars == <<tree>>

--------------------------------------------------------------------------
(* uniform nodes: every field has one type so TLC can compare productions *)
Node(op, s, kids) == [op |-> op, s |-> s, idx |-> <<>>, kids |-> kids, d |-> 0]
Hole(d) == [op |-> "Hole", s |-> "", idx |-> <<>>, kids |-> <<>>, d |-> d]
Tensor(name, idx) == [Node("T", name, <<>>) EXCEPT !.idx = idx]
Lit(text) == Node("L", text, <<>>)

TensorNames == {"A", "b2", "i"}
IndexLists == {<<>>, <<"i">>, <<"i", "j">>, <<"j", "i">>, <<"A">>, <<"i", "i">>}
Spellings == {"7", "007", "1.5", "1e3", "1E+3", "2.5e-1", "0.0", "1e999",
              "9007199254740993",      \* 2^53 + 1: an integer literal is an integer, not a rounded double
              "123456789012345678901234567890"}

LeafSet == {Tensor(nm, ix) : nm \in TensorNames, ix \in IndexLists} \cup {Lit(t) : t \in Spellings}
OpSet(d) == {Node(o, "", <<Hole(d), Hole(d)>>) : o \in {"+", "-", "*"}} \cup {Node("P", "", <<Hole(d)>>)}

Productions(h) == LeafSet \cup (IF h.d = 0 THEN {} ELSE OpSet(h.d - 1))

RECURSIVE Holes(_)
Holes(t) == IF t.op = "Hole" THEN 1
            ELSE LET RECURSIVE sum(_)
                     sum(i) == IF i = 0 THEN 0 ELSE sum(i - 1) + Holes(t.kids[i])
                 IN sum(Len(t.kids))
FirstKid(t) == CHOOSE i \in 1..Len(t.kids) : Holes(t.kids[i]) > 0 /\ \A j \in 1..(i - 1) : Holes(t.kids[j]) = 0
RECURSIVE FirstHole(_)
FirstHole(t) == IF t.op = "Hole" THEN t ELSE FirstHole(t.kids[FirstKid(t)])
RECURSIVE Fill(_, _)
Fill(t, s) == IF t.op = "Hole" THEN s ELSE LET i == FirstKid(t) IN [t EXCEPT !.kids[i] = Fill(t.kids[i], s)]

\* an assignment is a node "=" whose first kid is the target tensor
Targets == {Tensor(nm, ix) : nm \in {"A", "y"}, ix \in {<<>>, <<"i">>, <<"i", "j">>}}

--------------------------------------------------------------------------
(* formats and raw strings are sequences grown one symbol at a time *)
Alphabet == {"a", "(", ")", ",", "=", "+", "-", "*", "1", ".", "e", " "}
FmtNode(modes, digits, stage) == [op |-> "F", s |-> stage, idx |-> modes, kids |-> digits, d |-> 0]

Init ==
  CASE Root = "assignment" -> \E t \in Targets : tree = Node("=", "", <<t, Hole(ExprDepth)>>)
    [] Root = "format" -> tree = FmtNode(<<>>, <<>>, "modes")
    [] Root = "string" -> tree = Node("S", "", <<>>)

Derive ==
  CASE Root = "assignment" ->
         /\ Holes(tree) > 0
         /\ \E p \in Productions(FirstHole(tree)) : tree' = Fill(tree, p)
    [] Root = "format" ->
         \/ /\ tree.s = "modes" /\ Len(tree.idx) < MaxOrder
            /\ \E m \in {"d", "s"} : tree' = [tree EXCEPT !.idx = Append(@, m)]
         \/ /\ tree.s = "modes"
            /\ \E st \in {"plain", "digits"} : tree' = [tree EXCEPT !.s = st]
         \/ /\ tree.s = "digits" /\ Len(tree.kids) < Len(tree.idx)
            /\ \E g \in 0..Len(tree.idx) : tree' = [tree EXCEPT !.kids = Append(@, g)]
    [] Root = "string" ->
         /\ Len(tree.s) < MaxLen
         /\ \E c \in Alphabet : tree' = [tree EXCEPT !.s = @ \o c]

Next == Derive
Spec == Init /\ [][Next]_vars

--------------------------------------------------------------------------
(* text, shape, validity *)
Prec(t) == CASE t.op \in {"+", "-"} -> 1 [] t.op = "*" -> 2 [] OTHER -> 3

RECURSIVE Join(_, _)
Join(sq, sep) == IF sq = <<>> THEN "" ELSE IF Len(sq) = 1 THEN sq[1] ELSE sq[1] \o sep \o Join(Tail(sq), sep)

Sp == IF Spaced THEN " " ELSE ""

RECURSIVE Text(_)
Text(t) ==
  CASE t.op = "T" -> t.s \o "(" \o Join(t.idx, ",") \o ")"
    [] t.op = "L" -> t.s
    [] t.op = "P" -> "(" \o Text(t.kids[1]) \o ")"
    [] t.op \in {"+", "-", "*"} ->
         LET l == t.kids[1] r == t.kids[2]
             lt == IF Prec(l) < Prec(t) THEN "(" \o Text(l) \o ")" ELSE Text(l)
             rt == IF Prec(r) <= Prec(t) THEN "(" \o Text(r) \o ")" ELSE Text(r)
         IN lt \o Sp \o t.op \o Sp \o rt
    [] t.op = "=" -> Text(t.kids[1]) \o Sp \o "=" \o Sp \o Text(t.kids[2])

\* the tree the parser must recover: redundant parentheses leave no trace
RECURSIVE Shape(_)
Shape(t) ==
  CASE t.op = "T" -> [k |-> "T", name |-> t.s, idx |-> t.idx]
    [] t.op = "L" -> [k |-> "L", text |-> t.s]
    [] t.op = "P" -> Shape(t.kids[1])
    [] OTHER -> [k |-> t.op, l |-> Shape(t.kids[1]), r |-> Shape(t.kids[2])]

RECURSIVE LeavesOf(_)
LeavesOf(t) == CASE t.op = "T" -> <<t>> [] t.op = "L" -> <<>> [] t.op = "P" -> LeavesOf(t.kids[1])
                 [] OTHER -> LeavesOf(t.kids[1]) \o LeavesOf(t.kids[2])

Mutating(a) == \E i \in 1..Len(LeavesOf(a.kids[2])) : LeavesOf(a.kids[2])[i].s = a.kids[1].s
Inconsistent(a) == LET ls == LeavesOf(a.kids[2]) IN
                   \E i, j \in 1..Len(ls) : ls[i].s = ls[j].s /\ Len(ls[i].idx) # Len(ls[j].idx)
Conflict(a) == LET ls == <<a.kids[1]>> \o LeavesOf(a.kids[2])
                   names == {ls[i].s : i \in 1..Len(ls)}
                   idxs == UNION {{ls[i].idx[j] : j \in 1..Len(ls[i].idx)} : i \in 1..Len(ls)}
               IN names \cap idxs # {}
Rejected(a) == Mutating(a) \/ Inconsistent(a) \/ Conflict(a)

IsPerm(digits, n) == Len(digits) = n /\ {digits[i] : i \in 1..n} = 0..(n - 1)
RECURSIVE Digits(_)
Digits(sq) == IF sq = <<>> THEN "" ELSE ToString(Head(sq)) \o Digits(Tail(sq))
FmtText(t) == IF t.s = "plain" THEN Join(t.idx, "")
              ELSE Join([i \in 1..Len(t.idx) |-> t.idx[i] \o ToString(t.kids[i])], "")

Complete ==
  CASE Root = "assignment" -> Holes(tree) = 0
    [] Root = "format" -> tree.s = "plain" \/ (tree.s = "digits" /\ Len(tree.kids) = Len(tree.idx))
    [] Root = "string" -> TRUE

Line ==
  CASE Root = "assignment" ->
         [kind |-> "assignment", text |-> Text(tree), rejected |-> Rejected(tree),
          why |-> [mutating |-> Mutating(tree), inconsistent |-> Inconsistent(tree), conflict |-> Conflict(tree)],
          shape |-> [target |-> Shape(tree.kids[1]), rhs |-> Shape(tree.kids[2])]]
    [] Root = "format" ->
         [kind |-> "format", text |-> FmtText(tree), modes |-> tree.idx,
          ordering |-> IF tree.s = "plain" THEN [i \in 1..Len(tree.idx) |-> i - 1] ELSE tree.kids,
          valid |-> tree.s = "plain" \/ IsPerm(tree.kids, Len(tree.idx))]
    [] Root = "string" -> [kind |-> "string", text |-> tree.s]

Emit == ~Complete \/ PrintT("@@" \o ToJson(Line))
=============================================================================
