---------------------------- MODULE DesugarTrace ----------------------------
(***************************************************************************)
(* Trace validation of the REAL contraction placement (C01).               *)
(*                                                                         *)
(* Desugar.tla specifies one placement algorithm and proves it correct on  *)
(* Distributable assignments.  A working tree whose desugar_assignment     *)
(* builds a DIFFERENT tree is not thereby wrong: the property demands the  *)
(* meaning, not this algorithm.  So every tree the real code builds that   *)
(* deviates from the specified one is recorded and judged here by what it  *)
(* computes:   EvalD(real tree) = TensorAlgebra!DenoteAt  at every target  *)
(* coordinate, on the inputs of Desugar.tla and on a second input set with *)
(* unequal dimension sizes.  A tree that computes the meaning is accepted  *)
(* (verdict "alternative-correct"); one that does not is the violation.    *)
(* IOEnv.VF_TREES: JSON array of [text, tidx, rhs, tree]; rhs in the       *)
(* TensorAlgebra AST, tree in the image printed by Desugar!Img.            *)
(***************************************************************************)
EXTENDS Desugar, IOUtils

Trees == JsonDeserialize(IOEnv.VF_TREES)

VARIABLE n
tvars == <<vars, n>>

\* a second valuation: k has size 3, i size 1 (m loses its second row), other values
Dims2 == [i |-> 1, k |-> 3, l |-> 2]
Inputs2 == [x |-> (<<>> :> DInt(-3)), w |-> (<<>> :> DInt(5)),
            y |-> (<<0>> :> DInt(2)) @@ (<<2>> :> DInt(-7)), z |-> (<<1>> :> DInt(11)) @@ (<<2>> :> DInt(3)),
            b |-> (<<0>> :> DInt(4)),
            m |-> (<<0, 0>> :> DInt(6)) @@ (<<0, 2>> :> DInt(-5)),
            v |-> (<<0>> :> DInt(9)) @@ (<<1>> :> DInt(10))]

RECURSIVE EvalJ(_, _, _, _)
EvalJ(d, env, inputs, dims) ==
  CASE d.k = "T" -> LET key == [j \in 1..Len(d.idx) |-> env[d.idx[j]]] IN
                    IF key \in DOMAIN inputs[d.name] THEN inputs[d.name][key] ELSE DZero
    [] d.k = "L" -> d.v
    [] d.k = "+" -> DAdd(EvalJ(d.l, env, inputs, dims), EvalJ(d.r, env, inputs, dims))
    [] d.k = "*" -> DMul(EvalJ(d.l, env, inputs, dims), EvalJ(d.r, env, inputs, dims))
    [] d.k = "C" -> FoldSet(LAMBDA g, acc : DAdd(acc, EvalJ(d.e, g @@ env, inputs, dims)), DZero,
                            Envs(SeqSet(d.over), dims))

RECURSIVE Scoped(_, _)
\* every index a tensor access uses is bound: by the target or by an enclosing contraction
Scoped(d, bound) ==
  CASE d.k = "T" -> SeqSet(d.idx) \subseteq bound
    [] d.k = "L" -> TRUE
    [] d.k = "C" -> Scoped(d.e, bound \cup SeqSet(d.over))
    [] OTHER -> Scoped(d.l, bound) /\ Scoped(d.r, bound)

Computes(t, inputs, dims) ==
  LET a == [tidx |-> t.tidx, rhs |-> t.rhs] IN
  \A c \in TargetCoords(a, dims) : EvalJ(t.tree, TargetEnv(a, c), inputs, dims) = DenoteAt(a, c, inputs, dims)

Verdict(t) == IF ~Scoped(t.tree, SeqSet(t.tidx)) THEN "unbound-index"
              ELSE IF Computes(t, Inputs, Dims) /\ Computes(t, Inputs2, Dims2) THEN "alternative-correct"
              ELSE "computes-wrong-value"

TInit == Init /\ n = 0
TNext == n = 0 /\ n' \in 1..Len(Trees) /\ UNCHANGED vars
TSpec == TInit /\ [][TNext]_tvars
Judge == n = 0 \/ PrintT("@@" \o ToJson([n |-> n, text |-> Trees[n].text, verdict |-> Verdict(Trees[n])]))
=============================================================================
