--------------------------- MODULE TensorAlgebra ---------------------------
(***************************************************************************)
(* What an assignment means (oracle of C01, C03, C11, C16).                *)
(*                                                                         *)
(* Expression AST (the specification's own, never tensora's):              *)
(*   [k |-> "T", name, idx]   tensor access, idx a sequence of index names *)
(*   [k |-> "L", v]           literal, v a dyadic                          *)
(*   [k |-> "+" | "-" | "*", l, r]                                         *)
(* Assignment: [tidx |-> target index sequence, rhs |-> expression].       *)
(*                                                                         *)
(* Denote is literally the property text: the right-hand side is expanded  *)
(* into a signed sum of products; each term is summed over those of its    *)
(* own indexes that are absent from the target; a term lacking a target    *)
(* index is broadcast along it.                                            *)
(***************************************************************************)
EXTENDS Integers, Sequences, FiniteSets, FiniteSetsExt, SequencesExt, Functions, TLC, Dyadic

RECURSIVE Terms(_)
Terms(x) ==
  CASE x.k \in {"T", "L"} -> << [s |-> 1, f |-> <<x>>] >>
    [] x.k = "+" -> Terms(x.l) \o Terms(x.r)
    [] x.k = "-" -> LET R == Terms(x.r) IN Terms(x.l) \o [i \in 1..Len(R) |-> [s |-> 0 - R[i].s, f |-> R[i].f]]
    [] x.k = "*" -> LET L == Terms(x.l) R == Terms(x.r) IN
                    [n \in 1..(Len(L) * Len(R)) |->
                       LET i == ((n - 1) \div Len(R)) + 1  j == ((n - 1) % Len(R)) + 1 IN
                       [s |-> L[i].s * R[j].s, f |-> L[i].f \o R[j].f]]

SeqSet(s) == {s[i] : i \in 1..Len(s)}

TermIndexes(t) == UNION {SeqSet(t.f[i].idx) : i \in {i \in 1..Len(t.f) : t.f[i].k = "T"}}

RECURSIVE ExprIndexes(_)
ExprIndexes(x) == CASE x.k = "T" -> SeqSet(x.idx)
                    [] x.k = "L" -> {}
                    [] OTHER -> ExprIndexes(x.l) \cup ExprIndexes(x.r)

RECURSIVE Leaves(_)
Leaves(x) == CASE x.k = "T" -> <<x>>
               [] x.k = "L" -> <<>>
               [] OTHER -> Leaves(x.l) \o Leaves(x.r)

MaxOf(S) == IF S = {} THEN 0 ELSE CHOOSE m \in S : \A x \in S : x <= m

\* all valuations of the index set I within dims (a function index -> size)
Envs(I, dims) == LET M == MaxOf({dims[i] : i \in I}) IN
                 {g \in [I -> 0..(M - 1)] : \A i \in I : g[i] < dims[i]}

Key(leaf, env) == [j \in 1..Len(leaf.idx) |-> env[leaf.idx[j]]]

\* value of one term under env; inputs[name] : function coordinate -> dyadic (stored entries)
TermValue(t, env, inputs) ==
  LET fv(leaf) == IF leaf.k = "L" THEN leaf.v
                  ELSE LET key == Key(leaf, env) IN
                       IF key \in DOMAIN inputs[leaf.name] THEN inputs[leaf.name][key] ELSE DZero
      RECURSIVE prod(_)
      prod(i) == IF i = 0 THEN DOne ELSE DMul(prod(i - 1), fv(t.f[i]))
  IN LET p == prod(Len(t.f)) IN IF t.s = 1 THEN p ELSE DNeg(p)

\* structural presence of one term: every tensor factor stores the coordinate; literals are everywhere
TermPresent(t, env, stored) ==
  \A i \in 1..Len(t.f) : t.f[i].k = "L" \/ Key(t.f[i], env) \in stored[t.f[i].name]

TargetEnv(asg, c) == [i \in SeqSet(asg.tidx) |-> c[CHOOSE j \in 1..Len(asg.tidx) : asg.tidx[j] = i]]

DenoteAt(asg, c, inputs, dims) ==
  LET T == SeqSet(asg.tidx)
      env0 == TargetEnv(asg, c)
      ts == Terms(asg.rhs)
      termSum(t) == LET own == TermIndexes(t) \ T IN
                    FoldSet(LAMBDA g, acc : DAdd(acc, TermValue(t, g @@ env0, inputs)), DZero, Envs(own, dims))
      RECURSIVE total(_)
      total(i) == IF i = 0 THEN DZero ELSE DAdd(total(i - 1), termSum(ts[i]))
  IN total(Len(ts))

SupportAt(asg, c, stored, dims) ==
  LET T == SeqSet(asg.tidx)
      env0 == TargetEnv(asg, c)
      ts == Terms(asg.rhs)
  IN \E i \in 1..Len(ts) : \E g \in Envs(TermIndexes(ts[i]) \ T, dims) : TermPresent(ts[i], g @@ env0, stored)

TargetCoords(asg, dims) ==
  IF Len(asg.tidx) = 0 THEN {<<>>}
  ELSE LET M == MaxOf({dims[asg.tidx[j]] : j \in 1..Len(asg.tidx)}) IN
       {c \in [1..Len(asg.tidx) -> 0..(M - 1)] : \A j \in 1..Len(asg.tidx) : c[j] < dims[asg.tidx[j]]}

Denote(asg, inputs, dims) == [c \in TargetCoords(asg, dims) |-> DenoteAt(asg, c, inputs, dims)]
Support(asg, stored, dims) == {c \in TargetCoords(asg, dims) : SupportAt(asg, c, stored, dims)}

\* A target index repeated in the target (diagonal target) is outside the supported language.
TargetDiagonal(asg) == Cardinality(SeqSet(asg.tidx)) # Len(asg.tidx)
LeafDiagonal(leaf) == Cardinality(SeqSet(leaf.idx)) # Len(leaf.idx)
HasDiagonal(asg) == TargetDiagonal(asg) \/ \E i \in 1..Len(Leaves(asg.rhs)) : LeafDiagonal(Leaves(asg.rhs)[i])
BroadcastTarget(asg) == \E i \in SeqSet(asg.tidx) : i \notin ExprIndexes(asg.rhs)

(***************************************************************************)
(* C16: an index is "sparse-only" when every tensor that has it stores it  *)
(* in a compressed level, the target included, and every additive term     *)
(* mentions it (so nothing is broadcast along it).                         *)
(* formats[name] is the tensor's Format, leaf.idx its index list in        *)
(* dimension order: the level of dimension d is the l with ordering[l]=d-1.*)
(***************************************************************************)
ModeOfDim(fmt, d) == fmt.modes[CHOOSE l \in 1..Len(fmt.ordering) : fmt.ordering[l] = d - 1]

SparseOnlyIndex(asg, tname, formats, x) ==
  LET ls == Leaves(asg.rhs)
      ts == Terms(asg.rhs)
  IN /\ \A i \in 1..Len(ls) : \A d \in 1..Len(ls[i].idx) :
            ls[i].idx[d] = x => ModeOfDim(formats[ls[i].name], d) = "s"
     /\ \A d \in 1..Len(asg.tidx) : asg.tidx[d] = x => ModeOfDim(formats[tname], d) = "s"
     /\ \A i \in 1..Len(ts) : x \in TermIndexes(ts[i])
=============================================================================
