------------------------------- MODULE Dyadic -------------------------------
(***************************************************************************)
(* The value domain of every specification in this directory.              *)
(*                                                                         *)
(* TLC has 32-bit integers and no floating point.  Tensor values and       *)
(* float literals are dyadic rationals  n / 2^e  kept normalised (n odd or *)
(* e = 0; zero is <<0,0>>), so that structural equality of the records is  *)
(* numerical equality.  For the small dyadics used by the checks IEEE-754  *)
(* double arithmetic in the real back ends is exact, hence results of the  *)
(* real kernels are compared with these values by exact equality.          *)
(***************************************************************************)
EXTENDS Integers

RECURSIVE DNorm(_, _)
DNorm(n, e) == IF n = 0 THEN [n |-> 0, e |-> 0]
               ELSE IF e > 0 /\ n % 2 = 0 THEN DNorm(n \div 2, e - 1)
               ELSE [n |-> n, e |-> e]

RECURSIVE DPow2(_)
DPow2(k) == IF k = 0 THEN 1 ELSE 2 * DPow2(k - 1)

DMaxI(a, b) == IF a > b THEN a ELSE b
DAbs(a) == IF a < 0 THEN 0 - a ELSE a

DZero == [n |-> 0, e |-> 0]
DOne  == [n |-> 1, e |-> 0]
DInt(i) == [n |-> i, e |-> 0]

DAdd(a, b) == LET e == DMaxI(a.e, b.e) IN DNorm(a.n * DPow2(e - a.e) + b.n * DPow2(e - b.e), e)
DNeg(a)    == [n |-> 0 - a.n, e |-> a.e]
DSub(a, b) == DAdd(a, DNeg(b))
DMul(a, b) == DNorm(a.n * b.n, a.e + b.e)
DLess(a, b) == LET e == DMaxI(a.e, b.e) IN a.n * DPow2(e - a.e) < b.n * DPow2(e - b.e)

IsDyadic(v) == DOMAIN v = {"n", "e"}

\* Magnitude guard: operands inside this box can be added and multiplied
\* without leaving TLC's 32-bit integers.
DSmall(a) == DAbs(a.n) <= 32767 /\ a.e <= 14
=============================================================================
