------------------------------- MODULE IRGen -------------------------------
(***************************************************************************)
(* Generator of well-typed IR trees (quantifier domain of C06(b), C07(b)). *)
(*                                                                         *)
(* A derivation state machine: the state is a tree with typed HOLES; one   *)
(* step fills the leftmost hole with a production of its type.  The        *)
(* reachable states without holes are exactly the well-typed expression    *)
(* trees of depth <= ExprDepth (Root \in {"int","float","bool"}) or the    *)
(* statement trees of depth <= StmtDepth (Root = "stmt").  TLC's BFS       *)
(* enumerates them exhaustively; `-simulate' draws random deep ones.  A    *)
(* complete tree is printed as the JSON image of tensora's IR dataclasses  *)
(* (the format harness/vf/irjson.py reads and spec/IRMachine.tla runs).    *)
(*                                                                         *)
(* Root = "stmtR" adds the shapes on which branch- and scope-related        *)
(* rewrites key: arms that open with a declaration ({ int t = e; S }),     *)
(* possibly the SAME one in both arms, declarations that re-initialise a   *)
(* live variable which the branch condition reads (x), and conditions      *)
(* over x.  Declarations are function-scoped in the IR (as in the LLVM     *)
(* lowering and in IRMachine); these trees are run on the machine only.    *)
(*                                                                         *)
(* Variables of the generated programs: x, y : integer; f, g : float;      *)
(* p, q : boolean; a : int32_t* (read), fa : double* (read),               *)
(* w : int32_t* (written by statements).                                   *)
(***************************************************************************)
EXTENDS Integers, Sequences, FiniteSets, TLC, Json

CONSTANTS Root,        \* "int" | "float" | "bool" | "stmt"
          ExprDepth,   \* operator nesting allowed below an expression hole
          StmtDepth,   \* statement nesting
          Leaves       \* "full" | "tiny"

VARIABLES tree
vars == <<tree>>

\* every node has the same field types (TLC must be able to compare the elements of a production set)
Node(op, val, kids) == [op |-> op, val |-> val, i |-> 0, e |-> 0, kids |-> kids, ty |-> "", d |-> 0]
Hole(ty, d) == [op |-> "Hole", val |-> "", i |-> 0, e |-> 0, kids |-> <<>>, ty |-> ty, d |-> d]

IntLit(i) == [Node("IntegerLiteral", "", <<>>) EXCEPT !.i = i]
FloatLit(n, e) == [Node("FloatLiteral", "", <<>>) EXCEPT !.i = n, !.e = e]
BoolLit(b) == [Node("BooleanLiteral", "", <<>>) EXCEPT !.i = IF b THEN 1 ELSE 0]
Var(v) == Node("Variable", v, <<>>)
Idx(arr, i) == Node("ArrayIndex", arr, <<i>>)

LeafSet(ty) ==
  IF Leaves = "full" THEN
    CASE ty = "int" -> {IntLit(0), IntLit(1), IntLit(2), IntLit(-1), Var("x"), Var("y"), Idx("a", IntLit(1)), Idx("a", Var("x"))}
      [] ty = "float" -> {FloatLit(0, 0), FloatLit(1, 0), FloatLit(5, 1), FloatLit(-1, 0), Var("f"), Var("g"), Idx("fa", IntLit(0))}
      [] ty = "bool" -> {BoolLit(TRUE), BoolLit(FALSE), Var("p"), Var("q")}
  ELSE
    CASE ty = "int" -> {IntLit(0), IntLit(1), Var("x")}
      [] ty = "float" -> {FloatLit(0, 0), FloatLit(1, 0), Var("f")}
      [] ty = "bool" -> {BoolLit(TRUE), BoolLit(FALSE), Var("p")}

Arith == {"Add", "Subtract", "Multiply"}
Cmp == {"Equal", "NotEqual", "LessThan", "GreaterThan", "LessThanOrEqual", "GreaterThanOrEqual"}

OpSet(ty, d) ==   \* d = depth budget of the children
  CASE ty = "int" ->
         {Node(o, "", <<Hole("int", d), Hole("int", d)>>) : o \in Arith \cup {"Max", "Min"}}
         \cup {Node("BooleanToInteger", "", <<Hole("bool", d)>>)}
    [] ty = "float" ->
         {Node(o, "", <<Hole(l, d), Hole(r, d)>>) : o \in Arith, l \in {"int", "float"}, r \in {"int", "float"}}
         \ {Node(o, "", <<Hole("int", d), Hole("int", d)>>) : o \in Arith}
    [] ty = "bool" ->
         {Node(o, "", <<Hole("int", d), Hole("int", d)>>) : o \in Cmp}
         \cup {Node(o, "", <<Hole("bool", d), Hole("bool", d)>>) : o \in {"And", "Or"}}

EmptyBlock == Node("Block", "", <<>>)
Incr(v) == Node("AssignVar", v, <<Node("Add", "", <<Var(v), IntLit(1)>>)>>)

\* `scoped' = the hole is the whole body of a C scope (function body, branch arm, loop body): only there may a
\* declaration appear, because tensora's C printer does not open a scope for a nested Block (the real generator
\* never declares a name twice in one scope either).
StmtSet(d, scoped) ==   \* d = statement depth budget of the children
  {Node("AssignVar", "x", <<Hole("int", ExprDepth)>>), Node("AssignVar", "f", <<Hole("float", ExprDepth)>>),
   Node("AssignVar", "p", <<Hole("bool", ExprDepth)>>),
   Node("AssignArr", "w", <<IntLit(0), Hole("int", ExprDepth)>>),
   Node("AssignArr", "w", <<Var("x"), Hole("int", ExprDepth)>>),
   EmptyBlock}
  \cup (IF scoped THEN {Node("Decl", "t", <<Hole("int", ExprDepth)>>)} ELSE {})
  \cup (IF scoped /\ Root = "stmtR"
        THEN {Node("Decl", "x", <<Hole("int", ExprDepth)>>)}
             \cup {Node("Block", "", <<Node("Decl", v, <<Hole("int", ExprDepth)>>), Hole("stmt", 0)>>) : v \in {"t", "x"}}
        ELSE {})
  \cup (IF d > 0 /\ Root = "stmtR"
        THEN {Node("Branch", "", <<c, Hole("stmtS", d - 1), Hole("stmtS", d - 1)>>) :
                 c \in {Node("LessThan", "", <<Var("x"), IntLit(2)>>), Node("Equal", "", <<Var("x"), IntLit(0)>>)}}
        ELSE {})
  \cup (IF d = 0 THEN {} ELSE
        {Node("Block", "", <<Hole("stmt", d - 1)>>),
         Node("Block", "", <<Hole("stmt", d - 1), Hole("stmt", d - 1)>>),
         Node("Branch", "", <<Hole("bool", ExprDepth), Hole("stmtS", d - 1), Hole("stmtS", d - 1)>>),
         Node("Branch", "", <<Hole("bool", ExprDepth), Hole("stmtS", d - 1), EmptyBlock>>),
         Node("Branch", "", <<Hole("bool", ExprDepth), EmptyBlock, Hole("stmtS", d - 1)>>),
         Node("Loop", "", <<Hole("bool", ExprDepth), Hole("stmtS", d - 1)>>),
         \* pure counting loops, the idiom generated kernels use to finish an index (the body is exactly the increment);
         \* the bound is a variable or a literal and may be below the counter on entry
         Node("Loop", "", <<Node("LessThan", "", <<Var("x"), Var("y")>>), Incr("x")>>),
         Node("Loop", "", <<Node("LessThan", "", <<Var("x"), IntLit(2)>>), Incr("x")>>),
         Node("Loop", "", <<Node("LessThan", "", <<Var("x"), IntLit(2)>>), Node("Block", "", <<Incr("x")>>)>>),
         \* a loop that terminates by construction: while (x < 2) { S ; x = x + 1 }
         Node("Loop", "", <<Node("LessThan", "", <<Var("x"), IntLit(2)>>),
                            Node("Block", "", <<Hole("stmt", d - 1), Incr("x")>>)>>)})

Productions(h) ==
  IF h.ty \in {"stmt", "stmtS"} THEN StmtSet(h.d, h.ty = "stmtS")
  ELSE LeafSet(h.ty) \cup (IF h.d = 0 THEN {} ELSE OpSet(h.ty, h.d - 1))

RECURSIVE Holes(_)
Holes(t) == IF t.op = "Hole" THEN 1
            ELSE LET RECURSIVE sum(_)
                     sum(i) == IF i = 0 THEN 0 ELSE sum(i - 1) + Holes(t.kids[i])
                 IN sum(Len(t.kids))

FirstKid(t) == CHOOSE i \in 1..Len(t.kids) : Holes(t.kids[i]) > 0 /\ \A j \in 1..(i - 1) : Holes(t.kids[j]) = 0

RECURSIVE FirstHole(_)
FirstHole(t) == IF t.op = "Hole" THEN t ELSE FirstHole(t.kids[FirstKid(t)])

RECURSIVE Fill(_, _)
Fill(t, s) == IF t.op = "Hole" THEN s
              ELSE LET i == FirstKid(t) IN [t EXCEPT !.kids[i] = Fill(t.kids[i], s)]

Init == tree = IF Root \in {"stmt", "stmtR"} THEN Hole("stmtS", StmtDepth) ELSE Hole(Root, ExprDepth)
Derive == /\ Holes(tree) > 0
          /\ \E p \in Productions(FirstHole(tree)) : tree' = Fill(tree, p)
Next == Derive
Spec == Init /\ [][Next]_vars

--------------------------------------------------------------------------
(* The JSON image of the dataclasses *)
TyRec(t) == CASE t = "int" -> [k |-> "integer"] [] t = "float" -> [k |-> "float"] [] t = "bool" -> [k |-> "boolean"]

RECURSIVE Image(_)
Image(t) ==
  CASE t.op = "IntegerLiteral" -> [k |-> "IntegerLiteral", value |-> t.i, oob |-> FALSE]
    [] t.op = "FloatLiteral" -> [k |-> "FloatLiteral", value |-> [n |-> t.i, e |-> t.e], unrep |-> FALSE]
    [] t.op = "BooleanLiteral" -> [k |-> "BooleanLiteral", value |-> (t.i = 1)]
    [] t.op = "Variable" -> [k |-> "Variable", name |-> t.val]
    [] t.op = "ArrayIndex" -> [k |-> "ArrayIndex", target |-> [k |-> "Variable", name |-> t.val], index |-> Image(t.kids[1])]
    [] t.op = "BooleanToInteger" -> [k |-> "BooleanToInteger", expression |-> Image(t.kids[1])]
    [] t.op \in Arith \cup Cmp \cup {"Max", "Min", "And", "Or"} ->
         [k |-> t.op, left |-> Image(t.kids[1]), right |-> Image(t.kids[2])]
    [] t.op = "AssignVar" -> [k |-> "Assignment", target |-> [k |-> "Variable", name |-> t.val], value |-> Image(t.kids[1])]
    [] t.op = "AssignArr" -> [k |-> "Assignment",
                              target |-> [k |-> "ArrayIndex", target |-> [k |-> "Variable", name |-> t.val], index |-> Image(t.kids[1])],
                              value |-> Image(t.kids[2])]
    [] t.op = "Decl" -> [k |-> "DeclarationAssignment",
                         target |-> [k |-> "Declaration", name |-> [k |-> "Variable", name |-> t.val], type |-> [k |-> "integer"]],
                         value |-> Image(t.kids[1])]
    [] t.op = "Block" -> [k |-> "Block", statements |-> [i \in 1..Len(t.kids) |-> Image(t.kids[i])]]
    [] t.op = "Branch" -> [k |-> "Branch", condition |-> Image(t.kids[1]), if_true |-> Image(t.kids[2]), if_false |-> Image(t.kids[3])]
    [] t.op = "Loop" -> [k |-> "Loop", condition |-> Image(t.kids[1]), body |-> Image(t.kids[2])]

RECURSIVE Size(_)
Size(t) == LET RECURSIVE sum(_)
               sum(i) == IF i = 0 THEN 0 ELSE sum(i - 1) + Size(t.kids[i])
           IN 1 + sum(Len(t.kids))

Emit == Holes(tree) > 0 \/ PrintT("@@" \o ToJson([root |-> Root, size |-> Size(tree), tree |-> Image(tree)]))
=============================================================================
