----------------------------- MODULE IRMachine -----------------------------
(***************************************************************************)
(* Small-step abstract machine for tensora's intermediate representation   *)
(* (src/tensora/ir/ast.py).  The program is DATA: `Progs' is the JSON      *)
(* image of the FunctionDefinition dataclasses produced by the real        *)
(* compiler from the working tree (harness/vf/irjson.py dumps the fields   *)
(* generically, there is no lowering step), plus `types' = the declared    *)
(* type of every variable (parameters + the real hoist_declarations).      *)
(*                                                                         *)
(* State                                                                   *)
(*   prog    index of the function being executed                          *)
(*   pc      path into the statement tree (<<0>> = fell off the end)       *)
(*   env     defined variables only; reading an undefined one is a fault   *)
(*   blocks  the heap: sequence of [len, live, own, data]; data is a       *)
(*           partial function offset+1 -> value (uninitialised = absent);  *)
(*           own \in {"in","out","kernel","frozen","vals"}                 *)
(*   tens    taco_tensor_t structs: name -> [dimensions, indices, vals, ro]*)
(*   status  "idle" | "run" | "done" | <fault name>                        *)
(*   steps, iters   executed statements / loop iterations (history)        *)
(*   acc     [r, w] cells read / written while tracking is on (history)    *)
(*                                                                         *)
(* Values: integers (checked against int32 at every integer operation),    *)
(* dyadic records [n, e], booleans, pointers [b, o] (b = 0 is NULL) and    *)
(* tensor handles (strings).  Faults are states, not TLC errors, so one    *)
(* bad kernel does not stop an exploration.                                *)
(***************************************************************************)
EXTENDS Integers, Sequences, FiniteSets, TLC, Json, IOUtils, SequencesExt, Dyadic

Progs == JsonDeserialize(IOEnv.VF_PROGS)

VARIABLES prog, pc, env, blocks, tens, status, steps, iters, acc, track
mvars == <<prog, pc, env, blocks, tens, status, steps, iters, acc, track>>

Prog == Progs[prog]
Body == Prog.body

MaxInt == 2147483647
MinInt == -2147483647 - 1
NULL == [b |-> 0, o |-> 0]

Faults == {"oob-read", "oob-write", "uninit-read", "null-deref", "use-after-free", "write-to-input",
           "write-to-structure", "bad-realloc", "negative-alloc", "int32-overflow", "undefined-variable",
           "nonzero-return", "fell-off-end", "step-budget"}
\* statuses that say nothing about the kernel (outside the model's value domain / node set)
Inconclusive == {"value-range", "unsupported-node"}

--------------------------------------------------------------------------
(* overflow-free int32 range tests (TLC itself aborts on Java int overflow) *)
InRange(i) == i >= MinInt /\ i <= MaxInt
AddOK(a, b) == IF b >= 0 THEN a <= MaxInt - b ELSE a >= MinInt - b
SubOK(a, b) == IF b >= 0 THEN a >= MinInt + b ELSE a <= MaxInt + b
MulOK(a, b) ==
  IF a = 0 \/ b = 0 \/ a = 1 \/ b = 1 THEN TRUE
  ELSE IF a = MinInt \/ b = MinInt THEN FALSE
  ELSE LET x == IF a < 0 THEN 0 - a ELSE a
           y == IF b < 0 THEN 0 - b ELSE b
       IN IF x <= MaxInt \div y THEN TRUE
          ELSE (a < 0) # (b < 0) /\ x = (MaxInt \div y) + 1 /\ MaxInt % y = y - 1

--------------------------------------------------------------------------
(* Static types, from the declarations *)
TInt == [k |-> "integer"]
TFloat == [k |-> "float"]
TBool == [k |-> "boolean"]
TPtr(t) == [k |-> "ptr", to |-> t]

Comparisons == {"Equal", "NotEqual", "LessThan", "GreaterThan", "LessThanOrEqual", "GreaterThanOrEqual"}
Arithmetic == {"Add", "Subtract", "Multiply"}

RECURSIVE TypeOf(_)
TypeOf(x) ==
  CASE x.k = "Variable" -> Prog.types[x.name]
    [] x.k = "IntegerLiteral" -> TInt
    [] x.k = "FloatLiteral" -> TFloat
    [] x.k = "BooleanLiteral" -> TBool
    [] x.k = "AttributeAccess" ->
         (CASE x.attribute = "dimensions" -> TPtr(TInt)
            [] x.attribute = "vals" -> TPtr(TFloat)
            [] x.attribute = "indices" -> TPtr(TPtr(TPtr(TInt)))
            [] OTHER -> [k |-> "unknown"])
    [] x.k = "ArrayIndex" -> TypeOf(x.target).to
    [] x.k \in Arithmetic ->
         LET l == TypeOf(x.left) r == TypeOf(x.right) IN
         IF l.k = "ptr" THEN l
         ELSE IF l.k = "float" \/ r.k = "float" THEN TFloat ELSE TInt
    [] x.k \in {"Max", "Min"} -> TypeOf(x.left)
    [] x.k \in Comparisons \cup {"And", "Or"} -> TBool
    [] x.k = "BooleanToInteger" -> TInt
    [] x.k \in {"ArrayAllocate", "ArrayReallocate"} -> TPtr(x.element_type)
    [] OTHER -> [k |-> "unknown"]

Coerce(v, from, to) == IF from.k = "integer" /\ to.k = "float" THEN DInt(v) ELSE v

--------------------------------------------------------------------------
(* Expression evaluation.  Err(e) = "" when e evaluates safely in the      *)
(* current state; Val(e) presumes Err(e) = "".                             *)
First(a, b) == IF a # "" THEN a ELSE b

LoadErr(p) ==
  IF p.b = 0 THEN "null-deref"
  ELSE LET blk == blocks[p.b] IN
       IF ~blk.live THEN "use-after-free"
       ELSE IF p.o < 0 \/ p.o >= blk.len THEN "oob-read"
       ELSE IF (p.o + 1) \notin DOMAIN blk.data THEN "uninit-read"
       ELSE ""

StoreErr(p) ==
  IF p.b = 0 THEN "null-deref"
  ELSE LET blk == blocks[p.b] IN
       IF ~blk.live THEN "use-after-free"
       ELSE IF p.o < 0 \/ p.o >= blk.len THEN "oob-write"
       ELSE IF blk.own = "in" THEN "write-to-input"
       ELSE IF blk.own = "frozen" THEN "write-to-structure"
       ELSE ""

RECURSIVE Val(_), Err(_), Reads(_)

IntArith(k, l, r) == CASE k = "Add" -> l + r [] k = "Subtract" -> l - r [] k = "Multiply" -> l * r
IntArithOK(k, l, r) == CASE k = "Add" -> AddOK(l, r) [] k = "Subtract" -> SubOK(l, r) [] k = "Multiply" -> MulOK(l, r)
FloatArith(k, l, r) == CASE k = "Add" -> DAdd(l, r) [] k = "Subtract" -> DSub(l, r) [] k = "Multiply" -> DMul(l, r)

Arith(x) ==
  LET t == TypeOf(x) l == Val(x.left) r == Val(x.right)
      lt == TypeOf(x.left) rt == TypeOf(x.right) IN
  IF t.k = "ptr" THEN [b |-> l.b, o |-> IF x.k = "Add" THEN l.o + r ELSE l.o - r]
  ELSE IF t.k = "integer" THEN IntArith(x.k, l, r)
  ELSE FloatArith(x.k, Coerce(l, lt, t), Coerce(r, rt, t))

ArithErr(x) ==
  LET t == TypeOf(x) l == Val(x.left) r == Val(x.right)
      lt == TypeOf(x.left) rt == TypeOf(x.right) IN
  IF t.k = "ptr" THEN (IF x.k = "Multiply" \/ rt.k # "integer" THEN "unsupported-node"
                       ELSE IF ~IntArithOK(x.k, l.o, r) THEN "int32-overflow" ELSE "")
  ELSE IF t.k = "integer" THEN
       (IF lt.k # "integer" \/ rt.k # "integer" THEN "unsupported-node"
        ELSE IF ~IntArithOK(x.k, l, r) THEN "int32-overflow" ELSE "")
  ELSE IF t.k = "float" THEN
       (IF lt.k \notin {"integer", "float"} \/ rt.k \notin {"integer", "float"} THEN "unsupported-node"
        ELSE IF ~DSmall(Coerce(l, lt, t)) \/ ~DSmall(Coerce(r, rt, t)) THEN "value-range" ELSE "")
  ELSE "unsupported-node"

\* comparison of two values of the same scalar type (int or float)
LessV(a, b, t) == IF t.k = "float" THEN DLess(a, b) ELSE a < b

Compare(x) ==
  LET lt == TypeOf(x.left) rt == TypeOf(x.right)
      t == IF lt.k = "float" \/ rt.k = "float" THEN TFloat ELSE lt
      l == Coerce(Val(x.left), lt, t) r == Coerce(Val(x.right), rt, t) IN
  CASE x.k = "Equal" -> l = r
    [] x.k = "NotEqual" -> l # r
    [] x.k = "LessThan" -> LessV(l, r, t)
    [] x.k = "GreaterThan" -> LessV(r, l, t)
    [] x.k = "LessThanOrEqual" -> ~LessV(r, l, t)
    [] x.k = "GreaterThanOrEqual" -> ~LessV(l, r, t)

Val(x) ==
  CASE x.k = "Variable" -> env[x.name]
    [] x.k = "IntegerLiteral" -> x.value
    [] x.k = "FloatLiteral" -> x.value
    [] x.k = "BooleanLiteral" -> x.value
    [] x.k = "AttributeAccess" -> tens[Val(x.target)][x.attribute]
    [] x.k = "ArrayIndex" -> LET p == Val(x.target) IN blocks[p.b].data[p.o + Val(x.index) + 1]
    [] x.k \in Arithmetic -> Arith(x)
    [] x.k \in Comparisons -> Compare(x)
    [] x.k = "And" -> IF Val(x.left) THEN Val(x.right) ELSE FALSE
    [] x.k = "Or" -> IF Val(x.left) THEN TRUE ELSE Val(x.right)
    [] x.k = "Max" -> LET l == Val(x.left) r == Val(x.right) IN IF LessV(r, l, TypeOf(x.left)) THEN l ELSE r
    [] x.k = "Min" -> LET l == Val(x.left) r == Val(x.right) IN IF LessV(l, r, TypeOf(x.left)) THEN l ELSE r
    [] x.k = "BooleanToInteger" -> IF Val(x.expression) THEN 1 ELSE 0

Err(x) ==
  CASE x.k = "Variable" -> IF x.name \in DOMAIN env THEN "" ELSE "undefined-variable"
    [] x.k = "IntegerLiteral" -> IF x.oob THEN "int32-overflow" ELSE ""
    [] x.k = "FloatLiteral" -> IF x.unrep THEN "value-range" ELSE ""
    [] x.k = "BooleanLiteral" -> ""
    [] x.k = "AttributeAccess" ->
         LET e1 == Err(x.target) IN
         IF e1 # "" THEN e1
         ELSE IF TypeOf(x).k = "unknown" \/ TypeOf(x.target).k # "ptr" THEN "unsupported-node"
         ELSE IF Val(x.target) \notin DOMAIN tens THEN "null-deref" ELSE ""
    [] x.k = "ArrayIndex" ->
         LET e1 == First(Err(x.target), Err(x.index)) IN
         IF e1 # "" THEN e1
         ELSE IF TypeOf(x.target).k # "ptr" \/ TypeOf(x.index).k # "integer" THEN "unsupported-node"
         ELSE LET p == Val(x.target) i == Val(x.index) IN
              IF ~AddOK(p.o, i) THEN "int32-overflow" ELSE LoadErr([b |-> p.b, o |-> p.o + i])
    [] x.k \in Arithmetic ->
         LET e1 == First(Err(x.left), Err(x.right)) IN IF e1 # "" THEN e1 ELSE ArithErr(x)
    [] x.k \in Comparisons \cup {"Max", "Min"} ->
         LET e1 == First(Err(x.left), Err(x.right)) IN
         IF e1 # "" THEN e1
         ELSE IF x.k \in {"Equal", "NotEqual"} /\ TypeOf(x.left).k = "boolean" /\ TypeOf(x.right).k = "boolean"
              THEN ""                                   \* (in)equality of two booleans (flag == false)
         ELSE IF TypeOf(x.left).k \notin {"integer", "float"} \/ TypeOf(x.right).k \notin {"integer", "float"}
              THEN "unsupported-node" ELSE ""
    [] x.k = "And" -> LET e1 == Err(x.left) IN IF e1 # "" THEN e1 ELSE IF Val(x.left) THEN Err(x.right) ELSE ""
    [] x.k = "Or" -> LET e1 == Err(x.left) IN IF e1 # "" THEN e1 ELSE IF Val(x.left) THEN "" ELSE Err(x.right)
    [] x.k = "BooleanToInteger" -> Err(x.expression)
    [] OTHER -> "unsupported-node"

\* heap cells read by a safe evaluation of x (short-circuit respected)
Reads(x) ==
  CASE x.k \in {"Variable", "IntegerLiteral", "FloatLiteral", "BooleanLiteral"} -> {}
    [] x.k = "AttributeAccess" -> Reads(x.target)
    [] x.k = "ArrayIndex" -> LET p == Val(x.target) IN
                             Reads(x.target) \cup Reads(x.index) \cup {<<p.b, p.o + Val(x.index)>>}
    [] x.k \in Arithmetic \cup Comparisons \cup {"Max", "Min"} -> Reads(x.left) \cup Reads(x.right)
    [] x.k = "And" -> Reads(x.left) \cup (IF Val(x.left) THEN Reads(x.right) ELSE {})
    [] x.k = "Or" -> Reads(x.left) \cup (IF Val(x.left) THEN {} ELSE Reads(x.right))
    [] x.k = "BooleanToInteger" -> Reads(x.expression)
    [] OTHER -> {}

--------------------------------------------------------------------------
(* Control: pc is a path into the statement tree *)
RECURSIVE At(_, _)
At(node, p) ==
  IF p = <<>> THEN node
  ELSE LET h == Head(p) IN
       CASE node.k = "Block" -> At(node.statements[h], Tail(p))
         [] node.k = "Branch" -> At(IF h = 1 THEN node.if_true ELSE node.if_false, Tail(p))
         [] node.k = "Loop" -> At(node.body, Tail(p))




RECURSIVE Enter(_), After(_)
\* path of the first executable (non-Block) statement when control enters the node at p
Enter(p) ==
  LET n == At(Body, p) IN
  IF n.k = "Block" THEN (IF Len(n.statements) = 0 THEN After(p) ELSE Enter(p \o <<1>>)) ELSE p
After(p) ==
  IF p = <<>> THEN <<0>>
  ELSE LET q == Front(p) par == At(Body, q) IN
       CASE par.k = "Block" -> IF Last(p) < Len(par.statements) THEN Enter(q \o <<Last(p) + 1>>) ELSE After(q)
         [] par.k = "Branch" -> After(q)
         [] par.k = "Loop" -> q

Cur == At(Body, pc)
Running == status = "run" /\ pc # <<0>> /\ steps < Prog.budget

--------------------------------------------------------------------------
(* Effects *)
Fail(why) == /\ status' = why
             /\ UNCHANGED <<prog, pc, env, blocks, tens, iters, acc, track>>

Log(rs, ws) == acc' = IF track THEN [r |-> acc.r \cup rs, w |-> acc.w \cup ws] ELSE acc

NewBlock(len) == [len |-> len, live |-> TRUE, own |-> "kernel", data |-> <<>>]

\* where an assignment lands
StoreVar(name, v, goto, rs) ==
  /\ env' = (name :> v) @@ env
  /\ pc' = goto /\ Log(rs, {})
  /\ UNCHANGED <<prog, tens, status, iters, track>>

DoAlloc(name, value, goto) ==
  LET e == Err(value.n_elements) IN
  IF e # "" THEN Fail(e)
  ELSE LET n == Val(value.n_elements) IN
       IF n < 0 THEN Fail("negative-alloc")
       ELSE /\ blocks' = Append(blocks, NewBlock(n))
            /\ StoreVar(name, [b |-> Len(blocks) + 1, o |-> 0], goto, Reads(value.n_elements))

DoRealloc(name, value, goto) ==
  LET e == First(Err(value.old), Err(value.n_elements)) IN
  IF e # "" THEN Fail(e)
  ELSE LET n == Val(value.n_elements) old == Val(value.old) IN
       IF n < 0 THEN Fail("negative-alloc")
       ELSE IF old.b # 0 /\ (old.o # 0 \/ ~blocks[old.b].live \/ blocks[old.b].own # "kernel") THEN Fail("bad-realloc")
       ELSE LET keep == IF old.b = 0 THEN <<>>
                        ELSE [i \in {j \in DOMAIN blocks[old.b].data : j <= n} |-> blocks[old.b].data[i]]
                nb == [NewBlock(n) EXCEPT !.data = keep]
                killed == IF old.b = 0 THEN blocks ELSE [blocks EXCEPT ![old.b].live = FALSE] IN
            /\ blocks' = Append(killed, nb)
            /\ StoreVar(name, [b |-> Len(blocks) + 1, o |-> 0], goto, Reads(value.n_elements))

\* target is an Assignable expression, ttype its declared type
DoAssign(target, ttype, value, goto) ==
  IF value.k \in {"ArrayAllocate", "ArrayReallocate"} THEN
     (IF target.k # "Variable" THEN Fail("unsupported-node")
      ELSE IF value.k = "ArrayAllocate" THEN DoAlloc(target.name, value, goto)
      ELSE IF value.old.k # "Variable" THEN Fail("unsupported-node")
      ELSE DoRealloc(target.name, value, goto))
  ELSE
     LET e == Err(value) IN
     IF e # "" THEN Fail(e)
     ELSE LET v == Coerce(Val(value), TypeOf(value), ttype) IN
          CASE target.k = "Variable" ->
                 /\ StoreVar(target.name, v, goto, Reads(value))
                 /\ UNCHANGED blocks
            [] target.k = "ArrayIndex" ->
                 LET e2 == First(Err(target.target), Err(target.index)) IN
                 IF e2 # "" THEN Fail(e2)
                 ELSE LET p0 == Val(target.target) i == Val(target.index) IN
                      IF ~AddOK(p0.o, i) THEN Fail("int32-overflow")
                      ELSE LET p == [b |-> p0.b, o |-> p0.o + i] e3 == StoreErr(p) IN
                           IF e3 # "" THEN Fail(e3)
                           ELSE /\ blocks' = [blocks EXCEPT ![p.b].data = ((p.o + 1) :> v) @@ @]
                                /\ pc' = goto
                                /\ Log(Reads(value) \cup Reads(target.target) \cup Reads(target.index), {<<p.b, p.o>>})
                                /\ UNCHANGED <<prog, env, tens, status, iters, track>>
            [] target.k = "AttributeAccess" ->
                 LET e2 == Err(target.target) IN
                 IF e2 # "" THEN Fail(e2)
                 ELSE LET t == Val(target.target) IN
                      IF t \notin DOMAIN tens THEN Fail("null-deref")
                      ELSE IF tens[t].ro THEN Fail("write-to-input")
                      ELSE /\ tens' = [tens EXCEPT ![t][target.attribute] = v]
                           /\ pc' = goto /\ Log(Reads(value), {})
                           /\ UNCHANGED <<prog, env, blocks, status, iters, track>>
            [] OTHER -> Fail("unsupported-node")

--------------------------------------------------------------------------
(* Actions: one per statement kind, so that -coverage shows what ran *)
Tick == steps' = steps + 1

Assign == /\ Running /\ Cur.k = "Assignment" /\ Tick
          /\ DoAssign(Cur.target, TypeOf(Cur.target), Cur.value, After(pc))

DeclAssign == /\ Running /\ Cur.k = "DeclarationAssignment" /\ Tick
              /\ DoAssign(Cur.target.name, Cur.target.type, Cur.value, After(pc))

Declare == /\ Running /\ Cur.k = "Declaration" /\ Tick
           /\ pc' = After(pc)
           /\ UNCHANGED <<prog, env, blocks, tens, status, iters, acc, track>>

BranchStep ==
  /\ Running /\ Cur.k = "Branch" /\ Tick
  /\ LET e == Err(Cur.condition) IN
     IF e # "" THEN Fail(e)
     ELSE /\ pc' = IF Val(Cur.condition) THEN Enter(pc \o <<1>>) ELSE Enter(pc \o <<2>>)
          /\ Log(Reads(Cur.condition), {})
          /\ UNCHANGED <<prog, env, blocks, tens, status, iters, track>>

LoopStep ==
  /\ Running /\ Cur.k = "Loop" /\ Tick
  /\ LET e == Err(Cur.condition) IN
     IF e # "" THEN Fail(e)
     ELSE LET c == Val(Cur.condition) IN
          /\ pc' = IF c THEN Enter(pc \o <<1>>) ELSE After(pc)
          /\ iters' = IF c THEN iters + 1 ELSE iters
          /\ Log(Reads(Cur.condition), {})
          /\ UNCHANGED <<prog, env, blocks, tens, status, track>>

ReturnStep ==
  /\ Running /\ Cur.k = "Return" /\ Tick
  /\ LET e == Err(Cur.value) IN
     IF e # "" THEN Fail(e)
     ELSE LET v == Val(Cur.value) IN
          /\ status' = IF Prog.kernel THEN (IF v = 0 THEN "done" ELSE "nonzero-return") ELSE "done"
          /\ env' = ("$ret" :> v) @@ env
          /\ Log(Reads(Cur.value), {})
          /\ UNCHANGED <<prog, pc, blocks, tens, iters, track>>

OtherStep ==
  /\ Running /\ Cur.k \notin {"Assignment", "DeclarationAssignment", "Declaration", "Branch", "Loop", "Return"}
  /\ Tick /\ Fail("unsupported-node")

FellOff == /\ status = "run" /\ pc = <<0>> /\ Tick /\ Fail("fell-off-end")
OverBudget == /\ status = "run" /\ pc # <<0>> /\ steps >= Prog.budget /\ Tick /\ Fail("step-budget")

MStep == Assign \/ DeclAssign \/ Declare \/ BranchStep \/ LoopStep \/ ReturnStep \/ OtherStep \/ FellOff \/ OverBudget

Halted == status \notin {"idle", "run"}
=============================================================================
