----------------------------- MODULE Operators -----------------------------
(***************************************************************************)
(* Tensor operators  + - * @  (C11).                                       *)
(*                                                                         *)
(* A behaviour draws an operator application: operator, operand kinds      *)
(* (tensor/tensor, tensor/number, number/tensor), formats, dimensions      *)
(* (equal or deliberately unequal) and stored contents.  The specification *)
(* states what the library may answer:                                     *)
(*   expect = "shape-error"   the documented ValueError                    *)
(*   expect = "value"         a tensor with dimensions `rdims' whose       *)
(*                            content is the denotation of `asg' (the      *)
(*                            operator written as an assignment over the   *)
(*                            specification's own AST), and - when both    *)
(*                            operands are stored in natural mode order -  *)
(*                            whose level kinds are `rmodes'               *)
(* "No kernel" is always an allowed refusal.                               *)
(* The value itself is judged by spec/KernelRun.tla (observe): the result  *)
(* recorded from the real dunder method is validated as a trace against    *)
(* TensorAlgebra!Denote, Storage well-formedness and structural support.   *)
(***************************************************************************)
EXTENDS Storage, Json

CONSTANTS MaxOrder, MaxDim, MaxCells, MatOrders

VARIABLES stage, op, kind, na, nb, fa, fb, da, db, ca, cb
vars == <<stage, op, kind, na, nb, fa, fb, da, db, ca, cb>>

AllCoords(ds) == {c \in [1..Len(ds) -> 0..(MaxDim - 1)] : \A d \in 1..Len(ds) : c[d] < ds[d]}
Natural(f) == \A l \in 1..Len(f.ordering) : f.ordering[l] = l - 1
Empty == <<>>

Init == /\ stage = "op" /\ op = "" /\ kind = "" /\ na = 0 /\ nb = 0
        /\ fa = Empty /\ fb = Empty /\ da = Empty /\ db = Empty /\ ca = Empty /\ cb = Empty

PickOp ==
  /\ stage = "op"
  /\ \E o \in {"+", "-", "*", "@"} : \E k \in {"tt", "tn", "nt"} :
        /\ (o = "@" => k = "tt")
        /\ op' = o /\ kind' = k
  /\ stage' = "orders" /\ UNCHANGED <<na, nb, fa, fb, da, db, ca, cb>>

PickOrders ==
  /\ stage = "orders"
  /\ IF op = "@" THEN \E x \in MatOrders : \E y \in MatOrders : na' = x /\ nb' = y     \* order 3: the documented refusal
     ELSE \E x \in 0..MaxOrder :
            /\ na' = IF kind = "nt" THEN 0 ELSE x
            /\ nb' = IF kind = "tn" THEN 0 ELSE x
  /\ stage' = "formats" /\ UNCHANGED <<op, kind, fa, fb, da, db, ca, cb>>

PickFormats ==
  /\ stage = "formats"
  /\ \E x \in Formats(na) : \E y \in Formats(nb) : fa' = x /\ fb' = y
  /\ stage' = "dims" /\ UNCHANGED <<op, kind, na, nb, da, db, ca, cb>>

PickDims ==
  /\ stage = "dims"
  /\ \E x \in [1..na -> 0..MaxDim] : \E y \in [1..nb -> 0..MaxDim] :
        \* element-wise: equal dimensions, or exactly one dimension differing (the shape error)
        /\ (op # "@" /\ kind = "tt") => Cardinality({d \in 1..na : x[d] # y[d]}) <= 1
        /\ da' = x /\ db' = y
  /\ stage' = "contents" /\ UNCHANGED <<op, kind, na, nb, fa, fb, ca, cb>>

Positional(S, base) == LET sq == SortSeqs(S) IN
                       [c \in S |-> DInt(base + (CHOOSE i \in 1..Len(sq) : sq[i] = c))]
SmallSubsets(U) == {S \in SUBSET U : Cardinality(S) <= MaxCells \/ S = U}

PickContents ==
  /\ stage = "contents"
  /\ \E A \in SmallSubsets(AllCoords(da)) : \E B \in SmallSubsets(AllCoords(db)) :
        /\ ca' = Positional(A, 0)
        /\ cb' = Positional(B, 4)
  /\ stage' = "judge" /\ UNCHANGED <<op, kind, na, nb, fa, fb, da, db>>

Next == PickOp \/ PickOrders \/ PickFormats \/ PickDims \/ PickContents
Spec == Init /\ [][Next]_vars

--------------------------------------------------------------------------
(* The answer *)
Ix(n) == [i \in 1..n |-> "i" \o ToString(i - 1)]
T(name, idx) == [k |-> "T", name |-> name, idx |-> idx]
Bin(o, l, r) == [k |-> o, l |-> l, r |-> r]

ShapeError ==
  IF op = "@" THEN
       \/ na > 2 \/ nb > 2
       \/ (na = 1 /\ nb = 1 /\ da # db)
       \/ (na = 2 /\ nb = 1 /\ da[2] # db[1])
       \/ (na = 1 /\ nb = 2 /\ da[1] # db[1])
       \/ (na = 2 /\ nb = 2 /\ da[2] # db[1])
  ELSE kind = "tt" /\ da # db

Asg ==
  IF op = "@" THEN
       CASE na = 1 /\ nb = 1 -> [tidx |-> <<>>, rhs |-> Bin("*", T("left", <<"i">>), T("right", <<"i">>))]
         [] na = 2 /\ nb = 1 -> [tidx |-> <<"i">>, rhs |-> Bin("*", T("left", <<"i", "j">>), T("right", <<"j">>))]
         [] na = 1 /\ nb = 2 -> [tidx |-> <<"j">>, rhs |-> Bin("*", T("left", <<"i">>), T("right", <<"i", "j">>))]
         [] na = 2 /\ nb = 2 -> [tidx |-> <<"i", "k">>, rhs |-> Bin("*", T("left", <<"i", "j">>), T("right", <<"j", "k">>))]
  ELSE LET n == IF na > nb THEN na ELSE nb IN
       [tidx |-> Ix(n), rhs |-> Bin(op, T("left", Ix(na)), T("right", Ix(nb)))]

RDims ==
  IF op = "@" THEN
       CASE na = 1 /\ nb = 1 -> <<>>
         [] na = 2 /\ nb = 1 -> <<da[1]>>
         [] na = 1 /\ nb = 2 -> <<db[2]>>
         [] na = 2 /\ nb = 2 -> <<da[1], db[2]>>
  ELSE IF kind = "nt" THEN db ELSE da

\* the documented result format, for operands in natural mode order
ModeOfDim(f, d) == f.modes[CHOOSE l \in 1..Len(f.ordering) : f.ordering[l] = d - 1]
RModes ==
  IF op = "@" THEN
       CASE na = 1 /\ nb = 1 -> <<>>
         [] na = 2 /\ nb = 1 -> <<ModeOfDim(fa, 1)>>
         [] na = 1 /\ nb = 2 -> <<ModeOfDim(fb, 2)>>
         [] na = 2 /\ nb = 2 -> <<ModeOfDim(fa, 1), ModeOfDim(fb, 2)>>
  ELSE IF kind = "tt" THEN
       [l \in 1..na |-> IF op = "*" THEN (IF fa.modes[l] = "d" /\ fb.modes[l] = "d" THEN "d" ELSE "s")
                        ELSE (IF fa.modes[l] = "d" \/ fb.modes[l] = "d" THEN "d" ELSE "s")]
  ELSE LET f == IF kind = "nt" THEN fb ELSE fa IN
       IF op = "*" THEN f.modes ELSE [l \in 1..Len(f.modes) |-> "d"]

PairSeq(ct) == LET cs == SortSeqs(DOMAIN ct) IN [i \in 1..Len(cs) |-> <<cs[i], ct[cs[i]]>>]

Line ==
  [op |-> op, kind |-> kind, fa |-> fa, fb |-> fb, da |-> da, db |-> db, ca |-> PairSeq(ca), cb |-> PairSeq(cb),
   pa |-> Pack(ca, fa, da), pb |-> Pack(cb, fb, db),
   expect |-> IF ShapeError THEN "shape-error" ELSE "value",
   asg |-> IF ShapeError THEN <<>> ELSE Asg, rdims |-> IF ShapeError THEN <<>> ELSE RDims,
   natural |-> Natural(fa) /\ Natural(fb), rmodes |-> IF ShapeError THEN <<>> ELSE RModes]

Emit == stage # "judge" \/ PrintT("@@" \o ToJson(Line))
=============================================================================
