----------------------------- MODULE AlgebraLaws -----------------------------
(***************************************************************************)
(* Theorems about the oracle itself (C01, second sentence; C03).           *)
(*                                                                         *)
(* TensorAlgebra!DenoteAt is the meaning every kernel is judged against.   *)
(* The property also says that this meaning "does not depend on how        *)
(* commutative/associative operators are ordered or parenthesised, or on   *)
(* the names chosen for tensors and indexes".  Every respelled assignment  *)
(* of the catalogue is judged against Denote independently; that this      *)
(* amounts to judging them against EACH OTHER is a fact about Denote,      *)
(* model-checked here for every assignment of the Desugar derivation       *)
(* machine (same leaves, same inputs):                                     *)
(*   Commutes       swapping the operands of any + or *                    *)
(*   Associates     re-bracketing any (x + y) + z, (x * y) * z             *)
(*   SubtractRules  x - (y + z) = (x - y) - z,  x - (y - z) = (x - y) + z  *)
(*   Distributes    x * (y + z) = x * y + x * z  (both sides, + and -)     *)
(*   RenamesIndex   a bijective renaming of the index names (with the      *)
(*                  dimension sizes renamed along) changes nothing         *)
(*   RenamesTensor  exchanging two tensor names together with their values *)
(*   ValueNeedsSupport   a non-zero value has structural support: the two  *)
(*                  oracles (Meaning for C01, Support for C03) agree       *)
(* A rewrite is applied at every position of the right-hand side.          *)
(***************************************************************************)
EXTENDS Desugar

Bin(o, a, b) == [k |-> o, l |-> a, r |-> b]
IsBin(e) == e.k \in {"+", "-", "*"}

RootCommute(e) == IF e.k \in {"+", "*"} THEN {Bin(e.k, e.r, e.l)} ELSE {}
RootAssoc(e) ==
  (IF e.k \in {"+", "*"} /\ e.l.k = e.k THEN {Bin(e.k, e.l.l, Bin(e.k, e.l.r, e.r))} ELSE {})
  \cup (IF e.k \in {"+", "*"} /\ e.r.k = e.k THEN {Bin(e.k, Bin(e.k, e.l, e.r.l), e.r.r)} ELSE {})
RootSubtract(e) ==
  (IF e.k = "-" /\ e.r.k = "+" THEN {Bin("-", Bin("-", e.l, e.r.l), e.r.r)} ELSE {})
  \cup (IF e.k = "-" /\ e.r.k = "-" THEN {Bin("+", Bin("-", e.l, e.r.l), e.r.r)} ELSE {})
  \cup (IF e.k = "+" /\ e.r.k = "-" THEN {Bin("-", Bin("+", e.l, e.r.l), e.r.r)} ELSE {})
RootDistribute(e) ==
  (IF e.k = "*" /\ e.r.k \in {"+", "-"} THEN {Bin(e.r.k, Bin("*", e.l, e.r.l), Bin("*", e.l, e.r.r))} ELSE {})
  \cup (IF e.k = "*" /\ e.l.k \in {"+", "-"} THEN {Bin(e.l.k, Bin("*", e.l.l, e.r), Bin("*", e.l.r, e.r))} ELSE {})

Root(rule, e) == CASE rule = "commute" -> RootCommute(e) [] rule = "assoc" -> RootAssoc(e)
                   [] rule = "subtract" -> RootSubtract(e) [] rule = "distribute" -> RootDistribute(e)

RECURSIVE Anywhere(_, _)
\* the results of applying the root rule at any one position of e
Anywhere(rule, e) ==
  Root(rule, e) \cup (IF IsBin(e) THEN {[e EXCEPT !.l = x] : x \in Anywhere(rule, e.l)} \cup {[e EXCEPT !.r = x] : x \in Anywhere(rule, e.r)}
                      ELSE {})

SameMeaning(e2) ==
  LET a2 == [tidx |-> tidx, rhs |-> e2] IN
  \A c \in TargetCoords(Asg, Dims) : DenoteAt(a2, c, Inputs, Dims) = DenoteAt(Asg, c, Inputs, Dims)

Commutes      == Meaningful => \A e2 \in Anywhere("commute", rhs) : SameMeaning(e2)
Associates    == Meaningful => \A e2 \in Anywhere("assoc", rhs) : SameMeaning(e2)
SubtractRules == Meaningful => \A e2 \in Anywhere("subtract", rhs) : SameMeaning(e2)
Distributes   == Meaningful => \A e2 \in Anywhere("distribute", rhs) : SameMeaning(e2)

--------------------------------------------------------------------------
\* renaming: unequal dimension sizes so that a renaming that forgot the sizes would show
Dims3 == [i |-> 2, k |-> 1, l |-> 2]
IndexPerms == {p \in [{"i", "k", "l"} -> {"i", "k", "l"}] : \A x, y \in {"i", "k", "l"} : p[x] = p[y] => x = y}
RECURSIVE RenameIdx(_, _)
RenameIdx(e, p) == CASE e.k = "T" -> [e EXCEPT !.idx = [j \in 1..Len(e.idx) |-> p[e.idx[j]]]]
                     [] e.k = "L" -> e
                     [] OTHER -> [e EXCEPT !.l = RenameIdx(e.l, p), !.r = RenameIdx(e.r, p)]
RenamesIndex ==
  Meaningful =>
    \A p \in IndexPerms :
      LET a2 == [tidx |-> [j \in 1..Len(tidx) |-> p[tidx[j]]], rhs |-> RenameIdx(rhs, p)]
          d2 == [x \in {"i", "k", "l"} |-> Dims3[CHOOSE y \in {"i", "k", "l"} : p[y] = x]]
      IN \A c \in TargetCoords(Asg, Dims3) : DenoteAt(a2, c, Inputs, d2) = DenoteAt(Asg, c, Inputs, Dims3)

RECURSIVE SwapNames(_, _, _)
SwapNames(e, n1, n2) == CASE e.k = "T" -> [e EXCEPT !.name = IF @ = n1 THEN n2 ELSE IF @ = n2 THEN n1 ELSE @]
                          [] e.k = "L" -> e
                          [] OTHER -> [e EXCEPT !.l = SwapNames(e.l, n1, n2), !.r = SwapNames(e.r, n1, n2)]
SwapInputs(n1, n2) == [nm \in DOMAIN Inputs |-> IF nm = n1 THEN Inputs[n2] ELSE IF nm = n2 THEN Inputs[n1] ELSE Inputs[nm]]
RenamesTensor ==
  Meaningful =>
    \A pr \in {<<"y", "z">>, <<"x", "w">>, <<"y", "v">>} :
      LET a2 == [tidx |-> tidx, rhs |-> SwapNames(rhs, pr[1], pr[2])] IN
      \A c \in TargetCoords(Asg, Dims) : DenoteAt(a2, c, SwapInputs(pr[1], pr[2]), Dims) = DenoteAt(Asg, c, Inputs, Dims)

\* the two oracles are consistent: a coordinate with a non-zero value has structural support (never the converse:
\* stored entries may cancel)
Stored == [nm \in DOMAIN Inputs |-> DOMAIN Inputs[nm]]
ValueNeedsSupport ==
  Meaningful => \A c \in TargetCoords(Asg, Dims) :
                   DenoteAt(Asg, c, Inputs, Dims) # DZero => SupportAt(Asg, c, Stored, Dims)
=============================================================================
