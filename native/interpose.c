#define _GNU_SOURCE
#include <dlfcn.h>
#include <stddef.h>
#include <stdint.h>
#include <string.h>
#include <stdatomic.h>
#include <malloc.h>
static void *(*real_malloc)(size_t); static void (*real_free)(void*); static void *(*real_realloc)(void*, size_t);
static __thread int in_hook = 0;
#define MAXEV 65536
typedef struct { int kind; uintptr_t a; uintptr_t b; size_t n; } ev_t;
static ev_t evs[MAXEV]; static atomic_int nev = 0; static atomic_int recording = 0;
static char boot[1<<16]; static size_t boot_off = 0;
static void init(void){ if(!real_malloc){ in_hook=1; real_malloc=dlsym(RTLD_NEXT,"malloc"); real_free=dlsym(RTLD_NEXT,"free"); real_realloc=dlsym(RTLD_NEXT,"realloc"); in_hook=0; } }
static void rec(int k, uintptr_t a, uintptr_t b, size_t n){ if(atomic_load(&recording)){ int i=atomic_fetch_add(&nev,1); if(i<MAXEV){evs[i].kind=k;evs[i].a=a;evs[i].b=b;evs[i].n=n;} } }
void *malloc(size_t n){ if(!real_malloc){ if(in_hook){ void*p=boot+boot_off; boot_off+=(n+15)&~15; return p;} init(); } void*p=real_malloc(n); rec(1,(uintptr_t)p,0,n); return p; }
void free(void*p){ if(!p) return; if((char*)p>=boot && (char*)p<boot+sizeof boot) return; if(!real_free) init(); rec(2,(uintptr_t)p,0,0);
  /* while recording, released memory is poisoned: a read after free yields garbage deterministically */
  if(atomic_load(&recording)){ size_t u=malloc_usable_size(p); if(u) memset(p,0xA5,u); }
  real_free(p); }
void *realloc(void*p,size_t n){ if(!real_realloc) init(); void*q=real_realloc(p,n); rec(3,(uintptr_t)p,(uintptr_t)q,n); return q; }
void verif_record(int on){ atomic_store(&recording,on); }
int verif_nev(void){ return atomic_load(&nev); }
void verif_get(int i, int*k, uintptr_t*a, uintptr_t*b, size_t*n){ *k=evs[i].kind;*a=evs[i].a;*b=evs[i].b;*n=evs[i].n; }
void verif_reset(void){ atomic_store(&nev,0); }
